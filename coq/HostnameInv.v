(* HostnameInv.v — C08: invariants of every state the hostname object reaches under the virtual-time kernel
   (any messages, any clock advances, timers fired at or after their deadline): registration is probe-backed, and a
   registered hostname equals the value of its last change notification. *)
From QV Require Import Base Fields SrcFacts Msg SrcDecisions Sim Prober Hostname HostnameProofs.
From Coq Require Import ZifyBool ZifyNat ZifyN.
Local Open Scope Z_scope.

(* ghost: value of the last hostnameChanged, and the latest probe (name, instant) *)
Record ghost := mkGhost { g_emitted : option bytes; g_probe : bytes * Z }.

Definition hsim := @sim hostst.

(* ghost update from the effects of one handler invocation, in program order *)
Fixpoint ghost_effs (now : Z) (g : ghost) (es : list eff) : ghost :=
  match es with
  | [] => g
  | ESendAll m :: es' =>
      ghost_effs now (match m_queries m with
                      | q :: _ => mkGhost (g_emitted g) (bs_data (q_name q), now)
                      | [] => g
                      end) es'
  | ESig _ sg (PBytes (Some n)) :: es' =>
      ghost_effs now (if (sg =? SIG_hostnameChanged)%N then mkGhost (Some n) (g_probe g) else g) es'
  | _ :: es' => ghost_effs now g es'
  end.

Definition tm_has (tm : timers) (tid : N) : Prop := exists d sq, In (tid, d, sq) tm.

Record HInv (s : hsim) (g : ghost) : Prop := {
  hi_reg : h_reg (s_st s) = true -> g_emitted g = Some (h_name (s_st s));
  hi_unreg : h_reg (s_st s) = false ->
             match g_emitted g with Some x => x = h_prev (s_st s) | None => h_prev (s_st s) = [] end;
  hi_probe : h_reg (s_st s) = false ->
             fst (g_probe g) = h_name (s_st s) /\ snd (g_probe g) <= s_now s /\
             (forall d sq, In (T_REG, d, sq) (s_tm s) -> d = snd (g_probe g) + registration_wait_ms) /\
             tm_has (s_tm s) T_REG;
  hi_no_reb : h_reg (s_st s) = false -> ~ tm_has (s_tm s) T_REB;
  hi_no_reg : h_reg (s_st s) = true -> ~ tm_has (s_tm s) T_REG;
  hi_name : h_name (s_st s) <> [] }.

Lemma tm_remove_not_in tid tm : ~ tm_has (tm_remove tid tm) tid.
Proof.
  intros (d & sq & H). unfold tm_remove in H. apply filter_In in H as [_ H]. rewrite N.eqb_refl in H. discriminate.
Qed.
Lemma tm_remove_other tid tid' tm : tid <> tid' -> (tm_has (tm_remove tid tm) tid' <-> tm_has tm tid').
Proof.
  intro Hne. unfold tm_has, tm_remove. split; intros (d & sq & H).
  - apply filter_In in H as [H _]. eauto.
  - exists d, sq. apply filter_In. split; [exact H|]. apply negb_true_iff, N.eqb_neq. congruence.
Qed.
Lemma In_tm_remove x tid tm : In x (tm_remove tid tm) -> In x tm.
Proof. unfold tm_remove. intro H. apply filter_In in H. tauto. Qed.

Lemma candidate_nonempty local k : host_candidate local k <> [].
Proof. unfold host_candidate, LOCAL_SUFFIX. destruct ((if (k =? 1)%N then local else local ++ [DASH] ++ dec_of_N k)); discriminate. Qed.

(* assertHostname through the kernel: one probe for the (new) name, registration timer re-armed for now + wait *)
Lemma assert_effects now h tm sq :
  let '(h1, es) := assert_hostname h in
  let '(tm1, sq1, o) := apply_effs now tm sq es in
  h_reg h1 = h_reg h /\ h_prev h1 = h_prev h /\ h_name h1 = host_candidate (h_local h) (h_suffix h) /\
  h_local h1 = h_local h /\ h_ifaces h1 = h_ifaces h /\
  tm1 = tm_remove T_REG tm ++ [(T_REG, now + registration_wait_ms, (sq + 1)%N)] /\
  forall g, ghost_effs now g es = mkGhost (g_emitted g) (host_candidate (h_local h) (h_suffix h), now).
Proof. unfold assert_hostname. cbn. repeat split; reflexivity. Qed.

Lemma tm_has_app tm x tid : tm_has (tm ++ [x]) tid <-> tm_has tm tid \/ fst (fst x) = tid.
Proof.
  unfold tm_has. split.
  - intros (d & sq & H). apply in_app_iff in H as [H|[H|[]]]; [left; eauto|right; subst x; reflexivity].
  - intros [(d & sq & H)|H]; [exists d, sq; apply in_app_iff; left; exact H|].
    destruct x as [[i d] sq]. cbn in H. subst i. exists d, sq. apply in_app_iff. right. left. reflexivity.
Qed.

(* after an assertHostname on an unregistered object the invariant holds again *)
Lemma HInv_after_assert now h tm sq g :
  h_reg h = false -> ~ tm_has tm T_REB ->
  match g_emitted g with Some x => x = h_prev h | None => h_prev h = [] end ->
  let '(h1, es) := assert_hostname h in
  let '(tm1, sq1, o) := apply_effs now tm sq es in
  HInv (mkSim now tm1 sq1 h1) (ghost_effs now g es).
Proof.
  intros Hr Hnb Hem. pose proof (assert_effects now h tm sq) as A.
  destruct (assert_hostname h) as [h1 es]. destruct (apply_effs now tm sq es) as [[tm1 sq1] o].
  destruct A as (A1 & A2 & A3 & A4 & A5 & A6 & A7). rewrite (A7 g). subst tm1.
  constructor; cbn [s_st s_now s_tm g_emitted g_probe fst snd]; rewrite ?A1, ?A2, ?A3, ?Hr.
  - discriminate.
  - intros _. exact Hem.
  - intros _. split; [reflexivity|]. split; [lia|]. split.
    + intros d sq' H. apply in_app_iff in H as [H|[H|[]]].
      * exfalso. apply (tm_remove_not_in T_REG tm). exists d, sq'. exact H.
      * injection H as <- _. reflexivity.
    + apply tm_has_app. right. reflexivity.
  - intros _ H. apply tm_has_app in H as [H|H]; [|discriminate]. apply tm_remove_other in H; [contradiction|discriminate].
  - discriminate.
  - apply candidate_nonempty.
Qed.

Lemma apply_effs_app' now : forall e1 e2 tm sq,
  apply_effs now tm sq (e1 ++ e2) =
  let '(tm1, sq1, o1) := apply_effs now tm sq e1 in
  let '(tm2, sq2, o2) := apply_effs now tm1 sq1 e2 in (tm2, sq2, o1 ++ o2).
Proof.
  induction e1 as [|e e1 IH]; intros e2 tm sq; cbn [app apply_effs].
  - destruct (apply_effs now tm sq e2) as [[a b] c]. reflexivity.
  - destruct e; try (rewrite IH; destruct (apply_effs now tm sq e1) as [[tm1 sq1] o1];
                     destruct (apply_effs now tm1 sq1 e2) as [[tm2 sq2] o2]; reflexivity);
      rewrite IH; reflexivity.
Qed.
Lemma ghost_effs_app now : forall e1 e2 g, ghost_effs now g (e1 ++ e2) = ghost_effs now (ghost_effs now g e1) e2.
Proof.
  induction e1 as [|e e1 IH]; intros e2 g; cbn [app ghost_effs]; [reflexivity|].
  destruct e as [m|m|ob sg p|tid ms|tid|rs]; try apply IH. destruct p as [|[n|]|s|a|r]; apply IH.
Qed.

Lemma records_inv now : forall rs h tm sq g,
  HInv (mkSim now tm sq h) g -> h_reg h = false ->
  let '(h', es) := host_records rs h in
  let '(tm', sq', o) := apply_effs now tm sq es in
  HInv (mkSim now tm' sq' h') (ghost_effs now g es) /\ h_reg h' = false.
Proof.
  induction rs as [|r rs IH]; intros h tm sq g I Hr; cbn [host_records].
  - cbn. split; [destruct I; constructor; assumption|exact Hr].
  - destruct (hostname_conflict r (h_name h)); [|apply IH; assumption].
    set (hk := set_host h (h_name h) (h_prev h) (h_reg h) (h_suffix h + 1)).
    pose proof (HInv_after_assert now hk tm sq g) as A.
    assert (Hnb : ~ tm_has tm T_REB) by (apply (hi_no_reb _ _ I); exact Hr).
    assert (Hem : match g_emitted g with Some x => x = h_prev hk | None => h_prev hk = [] end) by (apply (hi_unreg _ _ I); exact Hr).
    specialize (A Hr Hnb Hem).
    pose proof (assert_effects now hk tm sq) as AE.
    destruct (assert_hostname hk) as [h1 e1]. destruct (apply_effs now tm sq e1) as [[tm1 sq1] o1] eqn:AP.
    destruct AE as (A1 & _).
    specialize (IH h1 tm1 sq1 (ghost_effs now g e1) A ltac:(rewrite A1; exact Hr)).
    destruct (host_records rs h1) as [h2 e2]. rewrite apply_effs_app', AP.
    destruct (apply_effs now tm1 sq1 e2) as [[tm2 sq2] o2]. rewrite ghost_effs_app. exact IH.
Qed.

(* the kernel's transitions, abstractly: the clock never goes back; a timer fires at or after its deadline *)
Inductive hreach : hsim -> ghost -> Prop :=
| hr_init rawlocal ifs :
    let local := replace_byte DOT DASH rawlocal in
    let '(h, es) := on_rebroadcast (mkHost local ifs [] [] false 1) in
    let '(tm, sq, o) := apply_effs 0 [] 0%N es in
    hreach (mkSim 0 tm sq h) (ghost_effs 0 (mkGhost None ([], 0)) es)
| hr_tick s g t : hreach s g -> s_now s <= t -> hreach (mkSim t (s_tm s) (s_seq s) (s_st s)) g
| hr_event s g ev : hreach s g ->
    match ev with EvTimer _ => False | _ => True end ->
    hreach (fst (dispatch hostst unit host_handle s ev))
           (ghost_effs (s_now s) g (snd (host_handle (s_now s) (s_st s) ev)))
| hr_timer s g tid d sq : hreach s g -> In (tid, d, sq) (s_tm s) -> d <= s_now s ->
    let s1 := mkSim (s_now s) (tm_remove tid (s_tm s)) (s_seq s) (s_st s) in
    hreach (fst (dispatch hostst unit host_handle s1 (EvTimer tid)))
           (ghost_effs (s_now s) g (snd (host_handle (s_now s) (s_st s) (EvTimer tid)))).

Definition only_host_timers (tm : timers) : Prop := forall tid d sq, In (tid, d, sq) tm -> tid = T_REG \/ tid = T_REB.

Lemma dispatch_unfold (s : hsim) ev :
  dispatch hostst unit host_handle s ev =
  let '(st', es) := host_handle (s_now s) (s_st s) ev in
  let '(tm', sq', o) := apply_effs (s_now s) (s_tm s) (s_seq s) es in
  (mkSim (s_now s) tm' sq' st', o).
Proof. reflexivity. Qed.

Lemma sim_eta' (s : hsim) : mkSim (s_now s) (s_tm s) (s_seq s) (s_st s) = s.
Proof. destruct s; reflexivity. Qed.

Lemma records_timers now : forall rs h tm sq, only_host_timers tm ->
  only_host_timers (fst (fst (apply_effs now tm sq (snd (host_records rs h))))).
Proof.
  induction rs as [|r rs IH]; intros h tm sq T; cbn [host_records]; [exact T|].
  destruct (hostname_conflict r (h_name h)); [|apply IH, T].
  unfold assert_hostname.
  match goal with |- context [host_records rs ?h1] => specialize (IH h1); destruct (host_records rs h1) as [h2 e2] end.
  cbn [snd app apply_effs] in *.
  pose proof (IH (tm_remove T_REG tm ++ [(T_REG, now + registration_wait_ms, (sq + 1)%N)]) (sq + 1)%N) as IH'.
  destruct (apply_effs now (tm_remove T_REG tm ++ [(T_REG, now + registration_wait_ms, (sq + 1)%N)]) (sq + 1)%N e2) as [[a b] c].
  cbn [fst] in *. apply IH'.
  intros tid d sq0 H. apply in_app_iff in H as [H|[H|[]]]; [apply In_tm_remove in H; eapply T; eauto|injection H as <- _ _; left; reflexivity].
Qed.

Theorem hreach_inv s g : hreach s g -> HInv s g /\ only_host_timers (s_tm s).
Proof.
  induction 1 as [rawlocal ifs | s g t _ [I T] Ht | s g ev _ [I T] Hev | s g tid d sq _ [I T] Hin Hd].
  - (* constructor *)
    unfold on_rebroadcast.
    set (h0 := set_host (mkHost (replace_byte DOT DASH rawlocal) ifs [] [] false 1) [] [] false 1).
    pose proof (HInv_after_assert 0 h0 [] 0%N (mkGhost None ([], 0)) eq_refl ltac:(intros (d & sq & [])) eq_refl) as A.
    split; [exact A|]. intros tid d sq' H. cbn in H. destruct H as [H|[]]. injection H as <- _ _. left; reflexivity.
  - (* the clock advances *)
    split; [|exact T]. destruct I as [I1 I2 I3 I4 I5 I6]. constructor; cbn [s_st s_now s_tm]; auto.
    intro Hr. destruct (I3 Hr) as (A & B & C & D). repeat split; auto. lia.
  - (* a message (or an API call, which the hostname ignores) *)
    rewrite dispatch_unfold. destruct ev as [m|tid|a]; [|destruct Hev|].
    + cbn [host_handle]. destruct (m_response m).
      * destruct (h_reg (s_st s)) eqn:Hr.
        -- cbn [apply_effs fst snd ghost_effs]. rewrite sim_eta'. split; assumption.
        -- pose proof (records_inv (s_now s) (m_records m) (s_st s) (s_tm s) (s_seq s) g) as R. rewrite sim_eta' in R.
           specialize (R I Hr). destruct (host_records (m_records m) (s_st s)) as [h' es] eqn:HR.
           pose proof (apply_effs_app' (s_now s) es [] (s_tm s) (s_seq s)) as _.
           destruct (apply_effs (s_now s) (s_tm s) (s_seq s) es) as [[tm' sq'] o] eqn:AP. cbn [fst snd].
           split; [exact (proj1 R)|].
           pose proof (records_timers (s_now s) (m_records m) (s_st s) (s_tm s) (s_seq s) T) as RT.
           rewrite HR in RT. cbn [snd] in RT. rewrite AP in RT. exact RT.
      * destruct (negb (h_reg (s_st s))); cbn [apply_effs fst snd ghost_effs]; [rewrite sim_eta'; split; assumption|].
        destruct (host_answers (s_st s) (m_addr m) (m_queries m)); cbn [apply_effs fst snd ghost_effs]; rewrite sim_eta'; split; assumption.
    + cbn [host_handle apply_effs fst snd ghost_effs]. rewrite sim_eta'. split; assumption.
  - (* a timer fires, at or after its deadline *)
    subst s1. rewrite dispatch_unfold. cbn [s_now s_tm s_seq s_st].
    destruct (T tid d sq Hin) as [-> | ->].
    + (* registration *)
      assert (Hr : h_reg (s_st s) = false).
      { destruct (h_reg (s_st s)) eqn:E; [|reflexivity]. exfalso. apply (hi_no_reg _ _ I E). exists d, sq. exact Hin. }
      cbn [host_handle]. rewrite N.eqb_refl.
      set (h := s_st s) in *. set (h' := set_host h (h_name h) (h_prev h) true (h_suffix h)).
      destruct (hi_probe _ _ I Hr) as (P1 & P2 & P3 & P4).
      rewrite ?host_announce_old in *. destruct (bytes_eqb (h_name h) (h_prev h)) eqn:E.
      * (* same name as before: silent *)
        cbn [app apply_effs fst snd ghost_effs]. split.
        -- constructor; cbn [s_st s_now s_tm h' set_host h_reg h_name h_prev]; try discriminate.
           ++ intros _. apply bytes_eqb_eq in E. pose proof (hi_unreg _ _ I Hr) as U. fold h in U.
              destruct (g_emitted g) as [x|]; [rewrite U, E; reflexivity|]. exfalso. apply (hi_name _ _ I). fold h. rewrite E, U. reflexivity.
           ++ intros _ X. apply tm_has_app in X as [X|X]; [|discriminate].
              apply tm_remove_other in X; [|discriminate]. apply (tm_remove_not_in T_REG (s_tm s)). exact X.
           ++ exact (hi_name _ _ I).
        -- intros tid d0 sq0 H. apply in_app_iff in H as [H|[H|[]]]; [|injection H as <- _ _; right; reflexivity].
           apply In_tm_remove, In_tm_remove in H. eapply T, H.
      * cbn [app apply_effs fst snd ghost_effs].
        change (SIG_hostnameChanged =? SIG_hostnameChanged)%N with true. cbn [ghost_effs]. split.
        -- constructor; cbn [s_st s_now s_tm h' set_host h_reg h_name h_prev g_emitted]; try discriminate.
           ++ reflexivity.
           ++ intros _ X. apply tm_has_app in X as [X|X]; [|discriminate].
              apply tm_remove_other in X; [|discriminate]. apply (tm_remove_not_in T_REG (s_tm s)). exact X.
           ++ exact (hi_name _ _ I).
        -- intros tid d0 sq0 H. apply in_app_iff in H as [H|[H|[]]]; [|injection H as <- _ _; right; reflexivity].
           apply In_tm_remove, In_tm_remove in H. eapply T, H.
    + (* periodic re-assertion *)
      assert (Hr : h_reg (s_st s) = true).
      { destruct (h_reg (s_st s)) eqn:E; [reflexivity|]. exfalso. apply (hi_no_reb _ _ I E). exists d, sq. exact Hin. }
      cbn [host_handle]. change (T_REB =? T_REG)%N with false. unfold on_rebroadcast.
      set (h := s_st s) in *. set (h0 := set_host h (h_name h) (h_name h) false 1).
      pose proof (HInv_after_assert (s_now s) h0 (tm_remove T_REB (s_tm s)) (s_seq s) g eq_refl (tm_remove_not_in T_REB (s_tm s))) as A.
      assert (Hem : match g_emitted g with Some x => x = h_prev h0 | None => h_prev h0 = [] end).
      { rewrite (hi_reg _ _ I Hr). reflexivity. }
      specialize (A Hem). pose proof (assert_effects (s_now s) h0 (tm_remove T_REB (s_tm s)) (s_seq s)) as AE.
      destruct (assert_hostname h0) as [h1 es]. destruct (apply_effs (s_now s) (tm_remove T_REB (s_tm s)) (s_seq s) es) as [[tm1 sq1] o].
      cbn [fst snd]. split; [exact A|]. destruct AE as (_ & _ & _ & _ & _ & -> & _).
      intros tid d0 sq0 H. apply in_app_iff in H as [H|[H|[]]]; [|injection H as <- _ _; left; reflexivity].
      apply In_tm_remove, In_tm_remove in H. eapply T, H.
Qed.

(* ---- the executable kernel (Sim.step, as run by host_run and by the correspondence check) stays inside hreach ---- *)
Lemma tm_next_spec : forall tm t strict best x,
  tm_next tm t strict best = Some x ->
  best = Some x \/ (In x tm /\ (snd (fst x) <= t)).
Proof.
  induction tm as [|[[i d] sq] tm IH]; intros t strict best x H; cbn [tm_next] in H; [left; exact H|].
  apply IH in H as [H|[H1 H2]]; [|right; split; [right; exact H1|exact H2]].
  destruct ((if strict then d <? t else d <=? t) &&
            match best with None => true | Some (_, d0, s0) => (d <? d0) || ((d =? d0) && (sq <? s0)%N) end) eqn:E;
    [|left; exact H].
  injection H as <-. right. split; [left; reflexivity|]. cbn [fst snd].
  apply andb_true_iff in E as [E _]. destruct strict; lia.
Qed.

Definition hreachable (s : hsim) : Prop := exists g, hreach s g.

Lemma fire_due_reach : forall fuel t strict late s,
  (late = true -> t <= s_now s) -> hreachable s ->
  hreachable (fst (fire_due hostst unit host_handle fuel t strict late s)) /\
  s_now s <= s_now (fst (fire_due hostst unit host_handle fuel t strict late s)).
Proof.
  induction fuel as [|f IH]; intros t strict late s Hl R; cbn [fire_due]; [split; [exact R|cbn; lia]|].
  destruct (tm_next (s_tm s) t strict None) as [[[tid d] sq]|] eqn:E; [|split; [exact R|cbn; lia]].
  apply tm_next_spec in E as [E|[Hin Hd]]; [discriminate|]. cbn [fst snd] in Hd.
  set (now' := if late then s_now s else Z.max (s_now s) d).
  assert (Hn : s_now s <= now') by (unfold now'; destruct late; lia).
  assert (Hd' : d <= now') by (unfold now'; destruct late; [specialize (Hl eq_refl)|]; lia).
  destruct R as [g R].
  pose proof (hr_timer _ _ tid d sq (hr_tick _ _ now' R Hn) Hin Hd') as R2. cbn [s_now s_tm s_seq s_st] in R2.
  set (s1 := mkSim now' (tm_remove tid (s_tm s)) (s_seq s) (s_st s)) in *.
  destruct (dispatch hostst unit host_handle s1 (EvTimer tid)) as [s2 o1] eqn:D.
  assert (N2 : s_now s2 = now').
  { rewrite dispatch_unfold in D. destruct (host_handle (s_now s1) (s_st s1) (EvTimer tid)) as [st' es].
    destruct (apply_effs (s_now s1) (s_tm s1) (s_seq s1) es) as [[tm' sq'] o]. injection D as <- _. reflexivity. }
  specialize (IH t strict late s2 ltac:(intro L; rewrite N2; unfold now'; rewrite L; apply Hl, L)
                 (ex_intro _ _ R2)).
  destruct (fire_due hostst unit host_handle f t strict late s2) as [s3 o2]. cbn [fst] in *.
  split; [apply IH|]. destruct IH as [_ IH]. lia.
Qed.

Lemma set_now_reach t (s : hsim) : hreachable s -> hreachable (set_now hostst t s).
Proof. intros [g R]. exists g. apply (hr_tick _ _ _ R). lia. Qed.

Lemma step_reach fuel (s : hsim) (o : aop unit) :
  hreachable s -> hreachable (fst (step hostst unit host_handle fuel s o)).
Proof.
  intros R. destruct o as [m|t|t|t|a]; cbn [step].
  - destruct R as [g R]. eexists. exact (hr_event _ _ (EvMsg m) R I).
  - destruct (t <? s_now s); [exact R|].
    pose proof (fire_due_reach fuel t false false s ltac:(discriminate) R) as [F _].
    destruct (fire_due hostst unit host_handle fuel t false false s) as [s' o]. cbn [fst] in *. apply set_now_reach, F.
  - destruct (t <? s_now s); [exact R|].
    pose proof (fire_due_reach fuel t true false s ltac:(discriminate) R) as [F _].
    destruct (fire_due hostst unit host_handle fuel t true false s) as [s' o]. cbn [fst] in *. apply set_now_reach, F.
  - destruct (t <? s_now s); [exact R|].
    apply fire_due_reach; [intros _; cbn; lia|apply set_now_reach, R].
  - destruct R as [g R]. eexists. exact (hr_event _ _ (EvApi a) R I).
Qed.

(* the state the executable model is in after any script *)
Definition host_state_after (fuel : nat) (rawlocal : bytes) (ifs : list iface) (ops : list (aop unit)) : hsim :=
  let local := replace_byte DOT DASH rawlocal in
  let '(h, es) := on_rebroadcast (mkHost local ifs [] [] false 1) in
  let '(tm, sq, o) := apply_effs 0 [] 0%N es in
  fold_left (fun s o => fst (step hostst unit host_handle fuel s o)) ops (mkSim 0 tm sq h).

Theorem host_run_reachable fuel rawlocal ifs ops : hreachable (host_state_after fuel rawlocal ifs ops).
Proof.
  unfold host_state_after. pose proof (hr_init rawlocal ifs) as R0. cbv zeta in R0.
  destruct (on_rebroadcast (mkHost (replace_byte DOT DASH rawlocal) ifs [] [] false 1)) as [h es].
  destruct (apply_effs 0 [] 0%N es) as [[tm sq] o].
  assert (R : hreachable (mkSim 0 tm sq h)) by (eexists; exact R0). clear R0.
  revert R. generalize (mkSim 0 tm sq h). induction ops as [|op ops IH]; intros s R; cbn [fold_left]; [exact R|].
  apply IH, step_reach, R.
Qed.

(* ---- the property-level statements ---- *)
(* whenever the object is registered, its hostname is the value carried by its most recent change notification *)
Theorem registered_name_is_last_notified s g :
  hreach s g -> h_reg (s_st s) = true -> g_emitted g = Some (h_name (s_st s)).
Proof. intros R. exact (hi_reg _ _ (proj1 (hreach_inv _ _ R))). Qed.

(* a registration (the registration timer firing, the only transition that sets the flag) happens only when the
   latest probe was for exactly the current name and went out at least registration_wait_ms earlier; every conflict
   since then would have replaced that probe by a later one *)
Theorem registration_is_probe_backed s g d sq :
  hreach s g -> In (T_REG, d, sq) (s_tm s) -> d <= s_now s ->
  h_reg (s_st s) = false /\ fst (g_probe g) = h_name (s_st s) /\
  snd (g_probe g) + registration_wait_ms <= s_now s /\
  let s1 := mkSim (s_now s) (tm_remove T_REG (s_tm s)) (s_seq s) (s_st s) in
  let s' := fst (dispatch hostst unit host_handle s1 (EvTimer T_REG)) in
  h_reg (s_st s') = true /\ h_name (s_st s') = h_name (s_st s).
Proof.
  intros R Hin Hd. destruct (hreach_inv _ _ R) as [I T].
  assert (Hr : h_reg (s_st s) = false).
  { destruct (h_reg (s_st s)) eqn:E; [|reflexivity]. exfalso. apply (hi_no_reg _ _ I E). exists d, sq. exact Hin. }
  destruct (hi_probe _ _ I Hr) as (P1 & P2 & P3 & P4). split; [exact Hr|]. split; [exact P1|].
  split; [rewrite <- (P3 d sq Hin); exact Hd|].
  cbv zeta. rewrite dispatch_unfold. cbn [s_now s_tm s_seq s_st host_handle]. rewrite N.eqb_refl.
  destruct (apply_effs _ _ _ _) as [[tm' sq'] o]. cbn. split; reflexivity.
Qed.

(* the flag is set by no other transition: a message, an API call or the re-assertion timer leave it false or clear it *)
Theorem only_registration_timer_registers now h ev :
  h_reg h = false -> h_reg (fst (host_handle now h ev)) = true -> ev = EvTimer T_REG.
Proof.
  intros Hr H. destruct ev as [m|tid|a]; cbn [host_handle] in H.
  - exfalso. destruct (m_response m).
    + rewrite Hr in H.
      assert (K : forall rs h0, h_reg h0 = false -> h_reg (fst (host_records rs h0)) = false).
      { induction rs as [|r rs IH]; intros h0 H0; cbn [host_records]; [exact H0|].
        destruct (hostname_conflict r (h_name h0)); [|apply IH, H0]. unfold assert_hostname.
        match goal with |- context [host_records rs ?h1] => specialize (IH h1 H0); destruct (host_records rs h1) as [h2 e2] end.
        exact IH. }
      rewrite (K _ _ Hr) in H. discriminate.
    + rewrite Hr in H. cbn in H. congruence.
  - destruct (tid =? T_REG)%N eqn:E; [apply N.eqb_eq in E; subst; reflexivity|]. exfalso.
    unfold on_rebroadcast, assert_hostname in H. cbn in H. discriminate.
  - cbn in H. congruence.
Qed.

(* a conflicting response, while unregistered: the next candidate (or a later one, when the response also conflicts
   with that) is probed at this very instant, and the registration timer now waits the full interval from it *)
Lemma records_cases now : forall rs h g,
  let '(h', es) := host_records rs h in
  (existsb (fun r => hostname_conflict r (h_name h)) rs = false /\ h' = h /\ es = []) \/
  ((h_suffix h < h_suffix h')%N /\ g_probe (ghost_effs now g es) = (h_name h', now) /\
   h_name h' = host_candidate (h_local h) (h_suffix h') /\ h_local h' = h_local h).
Proof.
  induction rs as [|r rs IH]; intros h g; cbn [host_records existsb]; [left; repeat split|].
  destruct (hostname_conflict r (h_name h)) eqn:C; cbn [orb].
  - set (hk := set_host h (h_name h) (h_prev h) (h_reg h) (h_suffix h + 1)).
    pose proof (assert_effects now hk [] 0%N) as AE.
    assert (AS : h_suffix (fst (assert_hostname hk)) = (h_suffix h + 1)%N) by reflexivity.
    destruct (assert_hostname hk) as [h1 e1]. destruct (apply_effs now [] 0%N e1) as [[tm1 sq1] o1].
    destruct AE as (A1 & A2 & A3 & A4 & A5 & _ & A7). cbn [fst] in AS.
    specialize (IH h1 (ghost_effs now g e1)). destruct (host_records rs h1) as [h2 e2]. right.
    rewrite ghost_effs_app. destruct IH as [(_ & -> & ->)|(I1 & I2 & I3 & I4)].
    + cbn [ghost_effs]. rewrite A7, A3, A4, AS. cbn [hk set_host h_local h_suffix g_probe]. repeat split. lia.
    + rewrite I2, I3, I4, A4. cbn [hk set_host h_local]. repeat split. lia.
  - specialize (IH h g). destruct (host_records rs h) as [h' es]. exact IH.
Qed.

Theorem conflict_restarts_wait s g m :
  hreach s g -> h_reg (s_st s) = false -> m_response m = true ->
  existsb (fun r => hostname_conflict r (h_name (s_st s))) (m_records m) = true ->
  let s' := fst (dispatch hostst unit host_handle s (EvMsg m)) in
  let g' := ghost_effs (s_now s) g (snd (host_handle (s_now s) (s_st s) (EvMsg m))) in
  h_reg (s_st s') = false /\ (h_suffix (s_st s) < h_suffix (s_st s'))%N /\
  h_name (s_st s') = host_candidate (h_local (s_st s)) (h_suffix (s_st s')) /\
  g_probe g' = (h_name (s_st s'), s_now s) /\
  tm_has (s_tm s') T_REG /\
  forall d sq, In (T_REG, d, sq) (s_tm s') -> d = s_now s + registration_wait_ms.
Proof.
  intros R Hr Hm Hc. cbv zeta.
  pose proof (hr_event _ _ (EvMsg m) R I) as R'. apply hreach_inv in R' as [I' _].
  revert I'. rewrite dispatch_unfold. cbn [host_handle]. rewrite Hm, Hr.
  pose proof (records_cases (s_now s) (m_records m) (s_st s) g) as RC.
  assert (K : forall rs h0, h_reg h0 = false -> h_reg (fst (host_records rs h0)) = false).
  { induction rs as [|r rs IH]; intros h0 H0; cbn [host_records]; [exact H0|].
    destruct (hostname_conflict r (h_name h0)); [|apply IH, H0]. unfold assert_hostname.
    match goal with |- context [host_records rs ?h1] => specialize (IH h1 H0); destruct (host_records rs h1) as [h2 e2] end.
    exact IH. }
  specialize (K (m_records m) (s_st s) Hr).
  destruct (host_records (m_records m) (s_st s)) as [h' es]. cbn [fst snd] in *.
  destruct RC as [(RC & _)|(C1 & C2 & C3 & C4)]; [congruence|].
  destruct (apply_effs (s_now s) (s_tm s) (s_seq s) es) as [[tm' sq'] o]. cbn [fst snd s_st s_tm].
  intros I'. destruct (hi_probe _ _ I' K) as (P1 & P2 & P3 & P4). cbn [s_st s_tm s_now] in *.
  rewrite C2 in P3. cbn [snd] in P3. repeat split; assumption.
Qed.

(* non-vacuity: a concrete run reaches a registered state under the name it probed *)
Example hreach_registered_somewhere :
  let s := host_state_after 10 [104]%N [] [AAdv 2000] in
  h_reg (s_st s) = true /\ h_name (s_st s) = [104; 46; 108; 111; 99; 97; 108; 46]%N.
Proof. vm_compute. split; reflexivity. Qed.

(* every broadcast the object makes is a probe: exactly one A and one AAAA question for the name then held, no records *)
Lemma assert_sendall h m : In (ESendAll m) (snd (assert_hostname h)) ->
  is_host_probe (h_name (fst (assert_hostname h))) m = true.
Proof.
  unfold assert_hostname. cbn [snd fst set_host h_name]. intros [H|[H|[]]]; [|discriminate]. injection H as <-.
  unfold is_host_probe. cbn. unfold bs_eqb. cbn [bs_data]. rewrite bytes_eqb_refl. reflexivity.
Qed.
Lemma records_sendall : forall rs h m, In (ESendAll m) (snd (host_records rs h)) -> exists nm, is_host_probe nm m = true.
Proof.
  induction rs as [|r rs IH]; intros h m; cbn [host_records]; [intros []|].
  destruct (hostname_conflict r (h_name h)); [|apply IH].
  set (hk := set_host h (h_name h) (h_prev h) (h_reg h) (h_suffix h + 1)).
  pose proof (assert_sendall hk m) as A. destruct (assert_hostname hk) as [h1 e1].
  specialize (IH h1 m). destruct (host_records rs h1) as [h2 e2]. cbn [snd fst] in *.
  intro H. apply in_app_iff in H as [H|H]; [eexists; apply A, H|apply IH, H].
Qed.
Theorem host_broadcasts_are_probes now h ev m :
  In (ESendAll m) (snd (host_handle now h ev)) -> exists nm, is_host_probe nm m = true.
Proof.
  destruct ev as [m0|tid|a]; cbn [host_handle].
  - destruct (m_response m0).
    + destruct (h_reg h); [intros []|apply records_sendall].
    + destruct (negb (h_reg h)); [intros []|]. destruct (host_answers h (m_addr m0) (m_queries m0)); [intros []|].
      intros [H|[]]. discriminate.
  - destruct (tid =? T_REG)%N.
    + cbn [snd]. intro H. apply in_app_iff in H as [H|[H|[]]]; [|discriminate].
      rewrite ?host_announce_old in *. destruct (bytes_eqb (h_name h) (h_prev h)); [destruct H|destruct H as [H|[]]; discriminate].
    + unfold on_rebroadcast. intro H. eexists. apply (assert_sendall _ m H).
  - intros [].
Qed.
