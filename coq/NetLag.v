(* NetLag.v — C04 for one provider and one passive browser on a FIFO link with arbitrary delay: the provider's multicast
   responses queue up on the link and are delivered one at a time, at any later moments, interleaved in any way with the
   provider's further handler invocations.  At every moment the browser reports the service of an EARLIER moment of the
   provider (the one described by what it has heard so far); whenever the link has drained it reports exactly what the
   provider serves now. *)
From QV Require Import Base Fields SrcFacts Msg SrcDecisions Cache CacheSpec CacheProofs Sim Prober ProberProofs Hostname HostnameProofs HostnameInv Resolver Provider ProviderSpec ProviderProofs ProviderListener ProviderConverge ProviderGoodbye Browser BrowserProofs NetProofs NetHop NetPair.
Local Open Scope Z_scope.

(* what the passive listener makes of the three kinds of multicast response, from the shape of the records alone *)
Lemma listen_bye_good T p s t nm : Good T p s t nm -> listen [p; s; t] [ESendAll (goodbye A0 P0 I0 p s t)] = [].
Proof.
  intros ([(P1 & P2 & P3) (S1 & S2) (X1 & X2)] & _). unfold goodbye. cbn [listen m_response]. unfold listen_msg. cbn [m_records fold_left].
  unfold listen1 at 3. cbn [filter r_ttl set_ttl N.eqb app]. rewrite spec_match_goodbye.
  rewrite !spec_match_type by (cbn [r_type set_ttl]; congruence). cbn [negb app].
  unfold listen1 at 2. cbn [filter r_ttl set_ttl N.eqb app]. rewrite spec_match_goodbye.
  rewrite !spec_match_type by (cbn [r_type set_ttl]; congruence). cbn [negb app].
  unfold listen1. cbn [filter r_ttl set_ttl N.eqb app]. rewrite spec_match_goodbye. reflexivity.
Qed.
Lemma listen_fresh_good T p s t nm : Good T p s t nm -> listen [] [ESendAll (announcement A0 P0 I0 p s t)] = [p; s; t].
Proof.
  intros ([(P1 & P2 & P3) (S1 & S2) (X1 & X2)] & _ & Lp & Ls & Lx & _). unfold announcement. cbn [listen m_response]. unfold listen_msg. cbn [m_records fold_left].
  unfold listen1 at 3. cbn [filter app]. rewrite Lp.
  unfold listen1 at 2. cbn [filter app]. rewrite Ls. rewrite spec_match_type by congruence. cbn [negb app].
  unfold listen1. cbn [filter app]. rewrite Lx. rewrite !spec_match_type by congruence. reflexivity.
Qed.
Lemma listen_over_good T p s t p' s' t' nm : Good T p s t nm -> Good T p' s' t' nm ->
  listen [p; s; t] [ESendAll (announcement A0 P0 I0 p' s' t')] = [p'; s'; t'].
Proof.
  intros ([(P1 & P2 & P3) (S1 & S2) (X1 & X2)] & _ & _ & _ & _ & _ & _ & Pp)
         ([(P1' & P2' & P3') (S1' & S2') (X1' & X2')] & _ & Lp' & Ls' & Lx' & Fs' & Ft' & Pp').
  unfold announcement. cbn [listen m_response]. unfold listen_msg. cbn [m_records fold_left].
  assert (Mp : spec_match p' p = true).
  { unfold spec_match. rewrite (plain_ptr_same p p' Pp Pp') by congruence. reflexivity. }
  assert (Ms : spec_match s' s = true).
  { unfold spec_match. rewrite Fs', S1, S1', S2, S2'. unfold bs_eqb. cbn [bs_data]. rewrite bytes_eqb_refl. cbn. apply orb_true_r. }
  assert (Mt : spec_match t' t = true).
  { unfold spec_match. rewrite Ft', X1, X1', X2, X2'. unfold bs_eqb. cbn [bs_data]. rewrite bytes_eqb_refl. cbn. apply orb_true_r. }
  unfold listen1 at 3. cbn [filter app]. rewrite Lp', Mp.
  rewrite (spec_match_type p' s), (spec_match_type p' t) by congruence. cbn [negb app].
  unfold listen1 at 2. cbn [filter app]. rewrite Ls', Ms.
  rewrite (spec_match_type s' t), (spec_match_type s' p') by congruence. cbn [negb app].
  unfold listen1. cbn [filter app]. rewrite Lx', Mt.
  rewrite (spec_match_type t' p'), (spec_match_type t' s') by congruence. reflexivity.
Qed.

(* a sequence of effects that makes sense to a browser that holds L: every multicast response in it is a goodbye for what
   is held, an announcement while nothing is held, or an announcement for the instance held *)
Inductive Script (T : bytes) : list record -> list eff -> Prop :=
| sc_nil L : Script T L []
| sc_skip L e es : silent [e] -> Script T L es -> Script T L (e :: es)
| sc_bye p s t nm es : Good T p s t nm -> Script T [] es -> Script T [p; s; t] (ESendAll (goodbye A0 P0 I0 p s t) :: es)
| sc_fresh p s t nm es : Good T p s t nm -> Script T [p; s; t] es -> Script T [] (ESendAll (announcement A0 P0 I0 p s t) :: es)
| sc_over p s t p' s' t' nm es : Good T p s t nm -> Good T p' s' t' nm -> Script T [p'; s'; t'] es ->
    Script T [p; s; t] (ESendAll (announcement A0 P0 I0 p' s' t') :: es).

Lemma script_silent T L : forall es, silent es -> Script T L es.
Proof.
  induction es as [|e es IH]; intro S; [apply sc_nil|]. apply sc_skip.
  - intros m [H|[]]. apply S. left. exact H.
  - apply IH. intros m H. apply S. right. exact H.
Qed.

Lemma listen_cons L e es : listen L (e :: es) = listen (listen L [e]) es.
Proof. change (e :: es) with ([e] ++ es). apply listen_app. Qed.

Lemma script_app T : forall a L b, Script T L a -> Script T (listen L a) b -> Script T L (a ++ b).
Proof.
  intros a L b Sa. induction Sa as [L|L e es Se Ses IH|p s t nm es G Ses IH|p s t nm es G Ses IH|p s t p' s' t' nm es G G' Ses IH]; intro Sb; cbn [app].
  - exact Sb.
  - apply sc_skip; [exact Se|]. apply IH. rewrite listen_cons, (listen_silent _ _ Se) in Sb. exact Sb.
  - apply (sc_bye T p s t nm); [exact G|]. apply IH. rewrite listen_cons, (listen_bye_good T p s t nm G) in Sb. exact Sb.
  - apply (sc_fresh T p s t nm); [exact G|]. apply IH. rewrite listen_cons, (listen_fresh_good T p s t nm G) in Sb. exact Sb.
  - apply (sc_over T p s t p' s' t' nm); [exact G|exact G'|]. apply IH. rewrite listen_cons, (listen_over_good T p s t p' s' t' nm G G') in Sb. exact Sb.
Qed.

(* ------------------------------------------------------------------ what one handler invocation of the provider puts on the link *)
Theorem step_script T now c ev L :
  CInv c L -> TInv T c -> one_provider c ev -> ev_type_ok T ev -> Script T L (snd (comp_handle now c ev)).
Proof.
  intros Iv N One Ty.
  pose proof (comp_step_inv now c ev L Iv One) as Iv'. pose proof (comp_step_T T now c ev L Iv N One Ty) as N'.
  destruct ev as [m|tid|a].
  - apply script_silent. cbn [comp_handle].
    pose proof (host_handle_silent now (cp_host c) (EvMsg m)) as S1.
    destruct (host_handle now (cp_host c) (EvMsg m)) as [h1 e1]. cbn [snd] in S1.
    assert (S3 : silent (snd (match cp_prober c with
                       | Some pb => let '(pb', e) := prober_handle now pb (EvMsg m) in (Some pb', e)
                       | None => (None, []) end))).
    { destruct (cp_prober c) as [pb|]; [|apply silent_nil]. cbn [prober_handle].
      destruct (prober_ignore_message (pb_confirmed pb) (m_response m)); [apply silent_nil|].
      pose proof (on_records_silent (m_records m) pb) as S. destruct (on_records (m_records m) pb). exact S. }
    destruct (match cp_prober c with Some pb => _ | None => (None, []) end) as [pb e3]. cbn [snd] in *.
    apply silent_app; [exact S1|]. apply silent_app; [|exact S3].
    destruct (pv_exists (cp_prov c)); [apply prov_on_message_silent|apply silent_nil].
  - cbn [comp_handle] in *. destruct (tid =? T_PROBER)%N.
    + destruct (cp_prober c) as [pb|] eqn:Ep; [|apply sc_nil].
      destruct (ci_prober _ _ Iv pb Ep) as (Ex & In_ & _ & _).
      unfold on_name_confirmed in *. set (p := cp_prov c) in *. set (name := r_name (pb_proposed pb)) in *.
      destruct (pv_confirmed p) eqn:Cf.
      * destruct (Good_of_served T c L Iv N Ex Cf) as (nm & G & HL). fold p in G, HL.
        cbn [farewell publish fst snd] in *.
        match type of Iv' with CInv ?c' (listen L (?e1 ++ ?e3)) => set (c1 := c') in *; set (ef := e1) in *; set (ep := e3) in * end.
        assert (F1 : pv_exists (cp_prov c1) = true) by (unfold c1; cbn; exact Ex).
        assert (F3 : pv_confirmed (cp_prov c1) = true) by (unfold c1; cbn; exact Cf).
        destruct (Good_of_served T c1 _ Iv' N' F1 F3) as (nm' & G' & HL').
        change ef with [ESendAll (goodbye A0 P0 I0 (pv_ptr p) (pv_srv p) (pv_txt p))].
        change ep with [ESendAll (announcement A0 P0 I0 (pv_ptr (cp_prov c1)) (pv_srv (cp_prov c1)) (pv_txt (cp_prov c1)))].
        rewrite HL. apply (sc_bye T _ _ _ nm); [exact G|]. apply (sc_fresh T _ _ _ nm'); [exact G'|apply sc_nil].
      * assert (L0 : L = []) by (apply (ci_unserved _ _ Iv); fold p; rewrite Cf; apply andb_false_r).
        cbn [publish fst snd app] in *.
        match type of Iv' with CInv ?c' (listen L ?e3) => set (c1 := c') in *; set (ep := e3) in * end.
        assert (F1 : pv_exists (cp_prov c1) = true) by (unfold c1; cbn; exact Ex).
        assert (F3 : pv_confirmed (cp_prov c1) = true) by (unfold c1; cbn; reflexivity).
        destruct (Good_of_served T c1 _ Iv' N' F1 F3) as (nm' & G' & HL').
        change ep with [ESendAll (announcement A0 P0 I0 (pv_ptr (cp_prov c1)) (pv_srv (cp_prov c1)) (pv_txt (cp_prov c1)))].
        rewrite L0. apply (sc_fresh T _ _ _ nm'); [exact G'|apply sc_nil].
    + apply script_silent.
      pose proof (host_handle_silent now (cp_host c) (EvTimer tid)) as S1.
      destruct (host_handle now (cp_host c) (EvTimer tid)) as [h1 e1]. cbn [snd] in S1. apply with_slot_silent, S1.
  - destruct a as [| |s|].
    + apply sc_nil.
    + cbn [comp_handle snd]. apply sc_nil.
    + cbn [comp_handle] in *. destruct (pv_exists (cp_prov c)) eqn:Ex; [|apply sc_nil].
      rewrite prov_update_eq in *. unfold prov_update_old in *.
      set (p := set_prov (cp_prov c) true (pv_confirmed (cp_prov c))) in *.
      set (fq := replace_byte DOT DASH (bs_data (s_name s)) ++ [DOT] ++ bs_data (s_type s)) in *.
      match type of Iv' with context [if negb (match bs_data (r_target (pv_srvP ?q)) with [] => true | _ :: _ => false end) then _ else _] => set (p1 := q) in * end.
      destruct (negb (match bs_data (r_target (pv_srvP p1)) with [] => true | _ :: _ => false end)); [|apply sc_nil].
      destruct (negb (pv_confirmed p1) || negb (bs_eqb (Some fq) (r_name (pv_srv p1)))) eqn:Br.
      * apply script_silent. pose proof (confirm_silent p1 (cp_prober c)) as S. destruct (confirm p1 (cp_prober c)) as [pb es]. exact S.
      * destruct (match cp_prober c with Some pb => _ | None => false end); [apply sc_nil|].
        apply orb_false_iff in Br as [Cf Nm]. apply negb_false_iff in Cf. apply negb_false_iff in Nm.
        assert (Cf0 : pv_confirmed (cp_prov c) = true) by exact Cf.
        destruct (Good_of_served T c L Iv N Ex Cf0) as (nm & G & HL).
        set (stop := match cp_prober c with Some _ => [EStop T_PROBER] | None => [] end) in *.
        assert (Sst : silent stop) by apply stop_silent.
        destruct (bs_eqb (r_target (pv_srvP p1)) (r_target (pv_srv p1))) eqn:Rt.
        -- cbn [publish fst snd app] in *.
           match type of Iv' with CInv ?c' (listen L (stop ++ ?e3)) => set (c1 := c') in *; set (ep := e3) in * end.
           assert (F1 : pv_exists (cp_prov c1) = true) by (unfold c1, p1, p; cbn; exact Ex).
           assert (F3 : pv_confirmed (cp_prov c1) = true) by (unfold c1, p1, p; cbn; exact Cf0).
           destruct (Good_of_served T c1 _ Iv' N' F1 F3) as (nm' & G' & HL').
           assert (Enm : nm' = nm).
           { destruct G as ([_ (S1 & _) _] & _). destruct G' as ([_ (S1' & _) _] & _).
             change (pv_srv p1) with (pv_srv (cp_prov c)) in Nm. rewrite S1 in Nm. unfold bs_eqb in Nm. cbn [bs_data] in Nm. apply bytes_eqb_eq in Nm.
             assert (E' : r_name (pv_srv (cp_prov c1)) = Some fq) by (unfold c1, p1, p; cbn; destruct (h_reg (cp_host c)); reflexivity).
             rewrite S1' in E'. injection E' as E'. rewrite Nm in E'. apply app_inv_tail in E'. exact E'. }
           subst nm'.
           apply script_app; [apply script_silent, Sst|]. rewrite (listen_silent _ _ Sst), HL.
           change ep with [ESendAll (announcement A0 P0 I0 (pv_ptr (cp_prov c1)) (pv_srv (cp_prov c1)) (pv_txt (cp_prov c1)))].
           apply (sc_over T _ _ _ _ _ _ nm); [exact G|exact G'|apply sc_nil].
        -- cbn [farewell publish fst snd] in *.
           match type of Iv' with CInv ?c' (listen L (stop ++ ?e2 ++ ?e3)) => set (c1 := c') in *; set (ef := e2) in *; set (ep := e3) in * end.
           assert (F1 : pv_exists (cp_prov c1) = true) by (unfold c1, p1, p; cbn; exact Ex).
           assert (F3 : pv_confirmed (cp_prov c1) = true) by (unfold c1, p1, p; cbn; exact Cf0).
           destruct (Good_of_served T c1 _ Iv' N' F1 F3) as (nm' & G' & HL').
           apply script_app; [apply script_silent, Sst|]. rewrite (listen_silent _ _ Sst), HL.
           change ef with [ESendAll (goodbye A0 P0 I0 (pv_ptr (cp_prov c)) (pv_srv (cp_prov c)) (pv_txt (cp_prov c)))].
           change ep with [ESendAll (announcement A0 P0 I0 (pv_ptr (cp_prov c1)) (pv_srv (cp_prov c1)) (pv_txt (cp_prov c1)))].
           apply (sc_bye T _ _ _ nm); [exact G|]. apply (sc_fresh T _ _ _ nm'); [exact G'|apply sc_nil].
    + cbn [comp_handle] in *. destruct (pv_exists (cp_prov c)) eqn:Ex; [|apply sc_nil].
      set (stop := match cp_prober c with Some _ => [EStop T_PROBER] | None => [] end) in *.
      assert (Sst : silent stop) by apply stop_silent.
      destruct (pv_confirmed (cp_prov c)) eqn:Cf.
      * destruct (Good_of_served T c L Iv N Ex Cf) as (nm & G & HL).
        cbn [farewell fst snd] in *.
        match type of Iv' with CInv ?c' (listen L (?e2 ++ stop)) => set (ef := e2) in * end.
        change ef with [ESendAll (goodbye A0 P0 I0 (pv_ptr (cp_prov c)) (pv_srv (cp_prov c)) (pv_txt (cp_prov c)))].
        rewrite HL. cbn [app]. apply (sc_bye T _ _ _ nm); [exact G|]. apply script_silent, Sst.
      * apply script_silent. cbn [fst snd app]. exact Sst.
Qed.

Section Lag.
  Variable hear : Z -> world -> list eff -> world * list eff.
  Hypothesis hear_silent : forall now es w, silent es -> hear now w es = (w, []).
  Hypothesis hear_goodbye_e : forall T now w p s t nm,
    bytes_eqb T browse_type = false -> BI T [p; s; t] w -> Good T p s t nm ->
    BI T [] (fst (hear now w [ESendAll (goodbye A0 P0 I0 p s t)])).
  Hypothesis hear_fresh_e : forall T now w p s t nm,
    T <> [] -> bytes_eqb T browse_type = false -> BI T [] w -> Good T p s t nm ->
    BI T [p; s; t] (fst (hear now w [ESendAll (announcement A0 P0 I0 p s t)])).
  Hypothesis hear_over_e : forall T now w p s t p' s' t' nm,
    T <> [] -> bytes_eqb T browse_type = false -> BI T [p; s; t] w -> Good T p s t nm -> Good T p' s' t' nm ->
    BI T [p'; s'; t'] (fst (hear now w [ESendAll (announcement A0 P0 I0 p' s' t')])).

  (* the provider, what it has put on the link so far (as the listener's content L), the effects still in flight, what
     the browser has heard so far (Lh), the browser *)
  Inductive qreach (T : bytes) : comp -> list record -> list eff -> list record -> world -> Prop :=
  | q_init local ifs bt : Interested bt T ->
      qreach T (mkComp (fst (on_rebroadcast (mkHost local ifs [] [] false 1))) no_prov None) [] [] []
             (mkWorld [empty_cache] [mkBrowser bt 0 [] [] []] 0)
  | q_send c L q Lh w now ev : qreach T c L q Lh w -> one_provider c ev -> ev_type_ok T ev ->
      qreach T (fst (comp_handle now c ev)) (listen L (snd (comp_handle now c ev))) (q ++ snd (comp_handle now c ev)) Lh w
  | q_deliver c L e q Lh w nowb : qreach T c L (e :: q) Lh w ->
      qreach T c L q (listen Lh [e]) (fst (hear nowb w [e])).

  Theorem qreach_inv T c L q Lh w : T <> [] -> bytes_eqb T browse_type = false -> qreach T c L q Lh w ->
    CInv c L /\ TInv T c /\ BI T Lh w /\ Script T Lh q /\ listen Lh q = L.
  Proof.
    intros HT Hbr R. induction R as [local ifs bt Hbt|c L q Lh w now ev R (Iv & IT & IB & IS & IL) One Ty|c L e q Lh w nowb R (Iv & IT & IB & IS & IL)].
    - split; [apply (lreach_inv _ _ (lr_init local ifs))|]. split; [constructor; cbn [cp_prov no_prov pv_exists]; discriminate|].
      split; [apply bi_none; try reflexivity; exact Hbt|]. split; [apply sc_nil|reflexivity].
    - split; [apply comp_step_inv; assumption|]. split; [apply (comp_step_T T now c ev L Iv IT One Ty)|]. split; [exact IB|]. split.
      + apply script_app; [exact IS|]. rewrite IL. apply (step_script T now c ev L Iv IT One Ty).
      + rewrite listen_app, IL. reflexivity.
    - split; [exact Iv|]. split; [exact IT|]. rewrite listen_cons in IL.
      inversion IS as [|L0 e0 es0 Se Ses|p s t nm es0 G Ses|p s t nm es0 G Ses|p s t p' s' t' nm es0 G G' Ses]; subst.
      + rewrite (hear_silent nowb [e] w Se), (listen_silent _ _ Se) in *. auto.
      + rewrite (listen_bye_good T p s t nm G) in *. split; [apply (hear_goodbye_e T nowb w p s t nm Hbr IB G)|]. auto.
      + rewrite (listen_fresh_good T p s t nm G) in *. split; [apply (hear_fresh_e T nowb w p s t nm HT Hbr IB G)|]. auto.
      + rewrite (listen_over_good T p s t p' s' t' nm G G') in *. split; [apply (hear_over_e T nowb w p s t p' s' t' nm HT Hbr IB G G')|]. auto.
  Qed.

  (* whenever the link has drained, the browser reports exactly what the provider serves *)
  Theorem drained_browser_reports_what_is_served T c L Lh w :
    T <> [] -> bytes_eqb T browse_type = false -> qreach T c L [] Lh w ->
    exists cch b, w = mkWorld [cch] [b] 0 /\
      (pv_exists (cp_prov c) = true -> pv_confirmed (cp_prov c) = true ->
         exists nm, r_name (pv_srv (cp_prov c)) = Some (nm ++ DOT :: T) /\
                    b_services b = [(nm ++ DOT :: T, svc_of T nm (pv_srv (cp_prov c)) (pv_txt (cp_prov c)))] /\
                    held cch = [pv_ptr (cp_prov c); pv_srv (cp_prov c); pv_txt (cp_prov c)]) /\
      (pv_exists (cp_prov c) && pv_confirmed (cp_prov c) = false -> b_services b = [] /\ held cch = []).
  Proof.
    intros HT Hbr R. destruct (qreach_inv T c L [] Lh w HT Hbr R) as (Iv & IT & IB & _ & IL). cbn [listen] in IL. subst Lh.
    inversion IB as [cch b Ce Hty Hc Hsv|p s t nm cch b G Hh Hty Hc Hsv]; subst; exists cch, b; (split; [reflexivity|]); split.
    - intros Ex Cf. destruct (ci_served _ _ Iv Ex Cf) as (_ & _ & _ & _ & HL). discriminate.
    - intros _. split; [exact Hsv|]. unfold held. rewrite Ce. reflexivity.
    - intros Ex Cf. destruct (ci_served _ _ Iv Ex Cf) as (_ & _ & _ & _ & HL). injection HL as -> -> ->.
      exists nm. destruct G as ([_ (S1 & _) _] & _). auto.
    - intros U. pose proof (ci_unserved _ _ Iv U). discriminate.
  Qed.
End Lag.

(* the two links of NetPair.v: every response delivered once, or 1 + d(message) times in a row *)
Theorem lagging_pair_converges T c L Lh w :
  T <> [] -> bytes_eqb T browse_type = false -> qreach bhear T c L [] Lh w ->
  exists cch b, w = mkWorld [cch] [b] 0 /\
    (pv_exists (cp_prov c) = true -> pv_confirmed (cp_prov c) = true ->
       exists nm, r_name (pv_srv (cp_prov c)) = Some (nm ++ DOT :: T) /\
                  b_services b = [(nm ++ DOT :: T, svc_of T nm (pv_srv (cp_prov c)) (pv_txt (cp_prov c)))] /\
                  held cch = [pv_ptr (cp_prov c); pv_srv (cp_prov c); pv_txt (cp_prov c)]) /\
    (pv_exists (cp_prov c) && pv_confirmed (cp_prov c) = false -> b_services b = [] /\ held cch = []).
Proof. exact (drained_browser_reports_what_is_served bhear bhear_silent hear_goodbye_effect hear_fresh_effect hear_over_effect T c L Lh w). Qed.

Theorem lagging_pair_converges_duplicated (d : message -> nat) T c L Lh w :
  T <> [] -> bytes_eqb T browse_type = false -> qreach (bheard d) T c L [] Lh w ->
  exists cch b, w = mkWorld [cch] [b] 0 /\
    (pv_exists (cp_prov c) = true -> pv_confirmed (cp_prov c) = true ->
       exists nm, r_name (pv_srv (cp_prov c)) = Some (nm ++ DOT :: T) /\
                  b_services b = [(nm ++ DOT :: T, svc_of T nm (pv_srv (cp_prov c)) (pv_txt (cp_prov c)))] /\
                  held cch = [pv_ptr (cp_prov c); pv_srv (cp_prov c); pv_txt (cp_prov c)]) /\
    (pv_exists (cp_prov c) && pv_confirmed (cp_prov c) = false -> b_services b = [] /\ held cch = []).
Proof.
  exact (drained_browser_reports_what_is_served (bheard d) (bheard_silent d) (heard_goodbye_e d) (heard_fresh_e d) (heard_over_e d) T c L Lh w).
Qed.

(* the synchronous link of NetPair.v is the special case in which everything is delivered before the provider goes on
   (so the histories of qreach are at least those of preach: the relation is not empty - Properties_C04, C04_pair_nonvacuous) *)
Lemma bhear_cons now w e es : fst (bhear now w (e :: es)) = fst (bhear now (fst (bhear now w [e])) es).
Proof.
  change (e :: es) with ([e] ++ es). rewrite bhear_app. destruct (bhear now w [e]) as [w1 o1]. cbn [fst].
  destruct (bhear now w1 es) as [w2 o2]. reflexivity.
Qed.

Lemma deliver_all T nowb : forall es c L Lh w,
  qreach bhear T c L es Lh w -> qreach bhear T c L [] (listen Lh es) (fst (bhear nowb w es)).
Proof.
  induction es as [|e es IH]; intros c L Lh w R; [exact R|].
  rewrite listen_cons, bhear_cons. apply IH. apply q_deliver. exact R.
Qed.

Theorem synchronous_is_lagging T c L w : preach bhear T c L w -> qreach bhear T c L [] L w.
Proof.
  induction 1 as [local ifs bt Hbt|c L w now nowb ev R IH One Ty]; [apply q_init; exact Hbt|].
  apply deliver_all. apply (q_send bhear T c L [] L w now ev IH One Ty).
Qed.

(* ------------------------------------------------------------------ a browser that joins late *)
(* A browser created while the provider is already serving has heard no announcement.  Its creation question (PTR for its
   type, no known answers: its cache is empty) reaches the provider, whose answer - by the C11 rule that a PTR answer is
   accompanied by the SRV and TXT records - carries the three served records; hearing it, the browser reports the service. *)
Theorem late_joiner_reported T c L nowb (wq : world) src port id :
  T <> [] -> bytes_eqb T browse_type = false ->
  lreach c L -> TInv T c -> pv_exists (cp_prov c) = true -> pv_confirmed (cp_prov c) = true ->
  BI T [] wq ->
  (* the browser's creation question as the provider receives it (source, port and id as stamped by the transport) *)
  let q := mkMessage src port id false false [mkQuery (Some T) T_PTR false] [] in
  exists reply nm,
    prov_on_message (cp_prov c) q = [ESend reply] /\
    m_records reply = [pv_ptr (cp_prov c); pv_srv (cp_prov c); pv_txt (cp_prov c)] /\ m_response reply = true /\
    BI T [pv_ptr (cp_prov c); pv_srv (cp_prov c); pv_txt (cp_prov c)] (fst (browser_on_message nowb 0 reply wq)) /\
    In (ESig 0%N SIG_serviceAdded (PService (svc_of T nm (pv_srv (cp_prov c)) (pv_txt (cp_prov c)))))
       (snd (browser_on_message nowb 0 reply wq)).
Proof.
  intros HT Hbr R IT Ex Cf B. cbv zeta. pose proof (lreach_inv c L R) as Iv.
  destruct (Good_of_served T c L Iv IT Ex Cf) as (nm & G & HL).
  set (p := pv_ptr (cp_prov c)) in *. set (s := pv_srv (cp_prov c)) in *. set (t := pv_txt (cp_prov c)) in *.
  pose proof G as ([(P1 & P2 & P3) (S1 & S2) (X1 & X2)] & _).
  set (q := mkMessage src port id false false [mkQuery (Some T) T_PTR false] []).
  assert (E : prov_on_message (cp_prov c) q = [ESend (announcement (spec_reply_addr q) port id p s t)]).
  { rewrite prov_reply_spec. unfold spec_prov_reply. rewrite Cf. cbn [negb orb m_response q].
    unfold spec_asked. cbn [m_queries q fold_left]. unfold q_is. cbn [q_type q_name].
    change (T_PTR =? 12)%N with true. cbn [andb]. fold p. rewrite P1.
    assert (Nb : bs_eqb (Some T) (Some BROWSE) = false) by (unfold bs_eqb; cbn [bs_data]; exact Hbr).
    rewrite Nb. unfold bs_eqb at 1. cbn [bs_data]. rewrite bytes_eqb_refl.
    unfold spec_known. cbn [m_records q fold_left orb app]. reflexivity. }
  exists (announcement (spec_reply_addr q) port id p s t), nm. split; [exact E|]. split; [reflexivity|]. split; [reflexivity|].
  destruct (hear_fresh T nowb (spec_reply_addr q) port id p s t nm wq HT Hbr B G) as (te & w' & _ & Eh & B').
  rewrite Eh. cbn [fst snd]. split; [exact B'|]. apply in_app_iff. right. left. reflexivity.
Qed.

(* the question a browser of type T sends when it is created on an empty cache is that question *)
Lemma creation_question T :
  exists m, browser_query_timeout 0 (mkWorld [empty_cache] [mkBrowser (Some T) 0 [] [] []] 0) = [ESendAll m; EStart (T_QUERY_OF 0) browse_period_ms] /\
            m_queries m = [mkQuery (Some T) T_PTR false] /\ m_records m = [] /\ m_response m = false.
Proof. eexists. split; [reflexivity|]. repeat split. Qed.

(* ------------------------------------------------------------------ providers of another type *)
(* the first loop keeps nothing of a response none of whose records it classifies as of interest *)
Lemma bcr_skip_all now : forall rs names nulls c b,
  Forall (fun r => classify b r = (false, None, None)) rs ->
  browser_cache_records now 0 rs names nulls (mkWorld [c] [b] 0) = (mkWorld [c] [b] 0, names, nulls, []).
Proof.
  induction rs as [|r rs IH]; intros names nulls c b F; cbn [browser_cache_records]; [reflexivity|].
  inversion F as [|? ? Hr Hrs]; subst. cbn [nth_error w_browsers]. rewrite Hr. rewrite (IH names nulls c b Hrs). reflexivity.
Qed.

(* a response all of whose records belong to a service type the browser does not browse for leaves it as it was *)
Theorem foreign_response_ignored now (rs : list record) addr port id c b :
  Forall (fun r => classify b r = (false, None, None)) rs ->
  Forall (fun r => (r_type r =? T_A)%N || (r_type r =? T_AAAA)%N = false) rs ->
  browser_on_message now 0 (mkMessage addr port id true false [] rs) (mkWorld [c] [b] 0) = (mkWorld [c] [b] 0, []).
Proof.
  intros F FA. unfold browser_on_message. cbn [m_response negb m_records].
  rewrite (bcr_skip_all now rs [] false c b F). cbn [browser_update_names]. rewrite (addresses_none now rs c b FA). reflexivity.
Qed.

(* the announcement (or goodbye) of a service of another type T' is such a response for a browser of type T, provided T is
   not the enumeration name and the instance's full name does not happen to end in ".T" *)
Theorem other_type_ignored now (ptr srv txt : record) (T T' nm : list N) addr port id c b :
  announces ptr srv txt T' nm -> b_type b = Some T -> bytes_eqb T browse_type = false ->
  bytes_eqb T' T = false -> ends_with ([DOT] ++ T) (nm ++ DOT :: T') = false ->
  browser_on_message now 0 (mkMessage addr port id true false [] [ptr; srv; txt]) (mkWorld [c] [b] 0) = (mkWorld [c] [b] 0, []).
Proof.
  intros [(P1 & P2 & P3) (S1 & S2) (X1 & X2)] Hty Hbr Hne Hend.
  assert (Any : is_any b = false).
  { unfold is_any, browser_any. rewrite Hty. unfold bs_eqb. cbn [bs_data]. exact Hbr. }
  apply foreign_response_ignored.
  - repeat constructor.
    + unfold classify. rewrite Any, P2. change (12 =? T_PTR)%N with true. cbn iota.
      unfold browser_ptr_browse, browser_ptr_type. cbn [andb orb]. rewrite Hty, P1. unfold bs_eqb. cbn [bs_data]. rewrite Hne. reflexivity.
    + unfold classify. rewrite Any, S2. change (33 =? T_PTR)%N with false. change (33 =? T_SRV)%N with true. cbn [orb]. cbn iota.
      unfold browser_srvtxt. cbn [orb]. rewrite Hty, S1. cbn [bs_data]. rewrite Hend. reflexivity.
    + unfold classify. rewrite Any, X2. change (16 =? T_PTR)%N with false. change (16 =? T_SRV)%N with false. change (16 =? T_TXT)%N with true. cbn [orb]. cbn iota.
      unfold browser_srvtxt. cbn [orb]. rewrite Hty, X1. cbn [bs_data]. rewrite Hend. reflexivity.
  - repeat constructor; [rewrite P2|rewrite S2|rewrite X2]; reflexivity.
Qed.

(* ------------------------------------------------------------------ any number of browsers *)
(* what the invariants say about one browser, in plain terms *)
Definition reports_served (T : bytes) (c : comp) (w : world) : Prop :=
  exists cch b, w = mkWorld [cch] [b] 0 /\
    (pv_exists (cp_prov c) = true -> pv_confirmed (cp_prov c) = true ->
       exists nm, r_name (pv_srv (cp_prov c)) = Some (nm ++ DOT :: T) /\
                  b_services b = [(nm ++ DOT :: T, svc_of T nm (pv_srv (cp_prov c)) (pv_txt (cp_prov c)))] /\
                  held cch = [pv_ptr (cp_prov c); pv_srv (cp_prov c); pv_txt (cp_prov c)]) /\
    (pv_exists (cp_prov c) && pv_confirmed (cp_prov c) = false -> b_services b = [] /\ held cch = []).

Lemma BI_reports_served T c L w : CInv c L -> BI T L w -> reports_served T c w.
Proof.
  intros Iv IB.
  inversion IB as [cch b Ce Hty Hc Hsv|p s t nm cch b G Hh Hty Hc Hsv]; subst; exists cch, b; (split; [reflexivity|]); split.
  - intros Ex Cf. destruct (ci_served _ _ Iv Ex Cf) as (_ & _ & _ & _ & HL). discriminate.
  - intros _. split; [exact Hsv|]. unfold held. rewrite Ce. reflexivity.
  - intros Ex Cf. destruct (ci_served _ _ Iv Ex Cf) as (_ & _ & _ & _ & HL). injection HL as -> -> ->.
    exists nm. destruct G as ([_ (S1 & _) _] & _). auto.
  - intros U. pose proof (ci_unserved _ _ Iv U). discriminate.
Qed.

(* one provider, any number of passive browsers (each of type T or enumerating, each with its own cache), each hearing every
   multicast response in order *)
Inductive preachN (T : bytes) : comp -> list record -> list world -> Prop :=
| prN_init local ifs bts : Forall (fun bt => Interested bt T) bts ->
    preachN T (mkComp (fst (on_rebroadcast (mkHost local ifs [] [] false 1))) no_prov None) []
            (map (fun bt => mkWorld [empty_cache] [mkBrowser bt 0 [] [] []] 0) bts)
| prN_step c L ws now nowb ev : preachN T c L ws -> one_provider c ev -> ev_type_ok T ev ->
    preachN T (fst (comp_handle now c ev)) (listen L (snd (comp_handle now c ev)))
            (map (fun w => fst (bhear nowb w (snd (comp_handle now c ev)))) ws).

Theorem every_browser_reports_what_is_served T c L ws :
  T <> [] -> bytes_eqb T browse_type = false -> preachN T c L ws -> Forall (reports_served T c) ws.
Proof.
  intros HT Hbr R.
  assert (Inv : CInv c L /\ TInv T c /\ Forall (BI T L) ws).
  { induction R as [local ifs bts Hb|c L ws now nowb ev R (Iv & IT & IB) One Ty].
    - split; [apply (lreach_inv _ _ (lr_init local ifs))|]. split; [constructor; cbn [cp_prov no_prov pv_exists]; discriminate|].
      apply Forall_forall. intros w Hw. apply in_map_iff in Hw as (bt & <- & Hbt).
      apply bi_none; try reflexivity. exact (proj1 (Forall_forall _ _) Hb bt Hbt).
    - split; [apply comp_step_inv; assumption|]. split; [apply (comp_step_T T now c ev L Iv IT One Ty)|].
      apply Forall_forall. intros w' Hw. apply in_map_iff in Hw as (w & <- & Hw).
      apply (pair_step bhear bhear_app bhear_silent hear_goodbye_effect hear_fresh_effect hear_over_effect T now nowb c ev L w HT Hbr Iv IT
                       (proj1 (Forall_forall _ _) IB w Hw) One Ty). }
  destruct Inv as (Iv & _ & IB). apply Forall_forall. intros w Hw.
  apply (BI_reports_served T c L w Iv (proj1 (Forall_forall _ _) IB w Hw)).
Qed.
