(* Cache.v — model of cache.cpp: Cache::addRecord, CachePrivate::onTimeout, lookupRecord(s),
   with the single shared QTimer.  Statement-by-statement; see DESIGN.md 3.1 for conventions. *)
From QV Require Import Base Fields SrcFacts Msg SrcDecisions.
Local Open Scope Z_scope.

Record entry := mkEntry { e_rec : record; e_trig : list Z }.
Inductive csig := ShouldQuery (r : record) | Expired (r : record).
(* a signal together with the records held by the cache at the moment of emission
   (all connections are direct, so slots run against exactly that content) *)
Definition sigsnap := (csig * list record)%type.

Record cache := mkCache {
  c_entries : list entry;
  c_next : option Z;      (* nextTrigger; None = null QDateTime *)
  c_timer : option Z }.   (* deadline of the single-shot QTimer when active *)
Definition empty_cache := mkCache [] None None.

(* QTimer::start(int): the qint64 argument is narrowed to int; a negative interval does not start *)
Definition to_int32 (x : Z) : Z := let y := x mod 4294967296 in if y <? 2147483648 then y else y - 4294967296.
Definition timer_start (now ms : Z) : option Z :=
  let i := to_int32 ms in if i <? 0 then None else Some (now + i).

(* record.ttl() * 500 is unsigned 32-bit arithmetic; "+ random" is then done in qint64 *)
Definition triggers (now jitter : Z) (ttl : N) : list Z :=
  map (fun m => now + Z.of_N (w32 (ttl * Z.to_N m)) + jitter) cache_multipliers
  ++ [now + cache_expiry_ms_per_s * Z.of_N ttl].

(* the scan loop at the top of addRecord; [kept] is what the loop has already stepped over *)
Fixpoint scan (r : record) (kept es : list entry) : list entry * list sigsnap :=
  match es with
  | [] => (kept, [])
  | e :: es' =>
      if cache_match r (e_rec e) then
        let '(k, sg) := scan r kept es' in
        (k, if (r_ttl r =? 0)%N then (Expired (e_rec e), map e_rec (kept ++ es')) :: sg else sg)
      else scan r (kept ++ [e]) es'
  end.

Definition add (now jitter : Z) (r : record) (c : cache) : cache * list sigsnap :=
  let '(kept, sg) := scan r [] (c_entries c) in
  if (r_ttl r =? 0)%N then (mkCache kept (c_next c) (c_timer c), sg)
  else
    let tr := triggers now jitter (r_ttl r) in
    let es := kept ++ [mkEntry r tr] in
    let t0 := hd now tr in
    let rearm := match c_next c with None => cache_rearm true t0 0 now | Some n => cache_rearm false t0 n now end in
    if rearm then (mkCache es (Some t0) (timer_start now (t0 - now)), sg)
    else (mkCache es (c_next c) (c_timer c), sg).

(* whether addRecord (re)starts the timer: the condition guarding timer.start() *)
Definition add_rearms (now jitter : Z) (r : record) (c : cache) : bool :=
  negb (r_ttl r =? 0)%N &&
  match c_next c with
  | None => cache_rearm true (hd now (triggers now jitter (r_ttl r))) 0 now
  | Some n => cache_rearm false (hd now (triggers now jitter (r_ttl r))) n now
  end.

Definition lookup (name : bstr) (type : N) (c : cache) : list record :=
  filter (cache_lookup_match name type) (map e_rec (c_entries c)).

(* inner loop of onTimeout: erase leading triggers <= now, stop at the first later one *)
Fixpoint drop_passed (now : Z) (tr : list Z) : bool * list Z :=
  match tr with
  | [] => (false, [])
  | t :: tr' => if cache_trigger_passed t now then (true, snd (drop_passed now tr')) else (false, tr)
  end.

Definition min_opt (a : option Z) (t : Z) : option Z :=
  match a with None => Some t | Some n => if t <? n then Some t else Some n end.

(* outer loop of onTimeout *)
Fixpoint pass (now : Z) (kept es : list entry) (nn : option Z) : list entry * option Z * list sigsnap :=
  match es with
  | [] => (kept, nn, [])
  | e :: es' =>
      let '(sq, rest) := drop_passed now (e_trig e) in
      match rest with
      | [] =>
          let '(k, n, sg) := pass now kept es' nn in
          (k, n, (Expired (e_rec e), map e_rec (kept ++ es')) :: sg)
      | t0 :: _ =>
          let e' := mkEntry (e_rec e) rest in
          let '(k, n, sg) := pass now (kept ++ [e']) es' (min_opt nn t0) in
          (k, n, if sq then (ShouldQuery (e_rec e), map e_rec (kept ++ e' :: es')) :: sg else sg)
      end
  end.

Definition on_timeout (now : Z) (c : cache) : cache * list sigsnap :=
  let '(k, n, sg) := pass now [] (c_entries c) None in
  (mkCache k n (match n with None => None | Some d => timer_start now (d - now) end), sg).

(* ---- the cache alone under a script (engine "cache" of the correspondence check) ---- *)
Inductive cop :=
| CAdd (r : record) (jitter : Z)
| CAdv (t : Z)          (* exact scheduling: every due firing happens at its deadline *)
| CLate (t : Z)         (* jump to t, then deliver the pending firing late *)
| CAdvB (t : Z)         (* as CAdv for deadlines < t; the clock ends at t, a firing due exactly at t still pending:
                           the caller's next action at instant t is processed before the simultaneously due timer *)
| CLookup (name : bstr) (type : N).
Inductive cout :=
| OSig (t : Z) (s : csig) (snapshot : list record)
| OLookup (rs : list record).

Fixpoint fire_exact (fuel : nat) (t : Z) (c : cache) : cache * list cout :=
  match fuel with
  | O => (c, [])
  | S f =>
      match c_timer c with
      | Some d => if d <=? t then
                    let '(c1, sg) := on_timeout d (mkCache (c_entries c) (c_next c) None) in
                    let '(c2, o) := fire_exact f t c1 in
                    (c2, map (fun s => OSig d (fst s) (snd s)) sg ++ o)
                  else (c, [])
      | None => (c, [])
      end
  end.

Definition total_triggers (c : cache) : nat := fold_right (fun e n => (length (e_trig e) + n)%nat) O (c_entries c).

Definition cstep (st : Z * cache) (o : cop) : (Z * cache) * list cout :=
  let '(now, c) := st in
  match o with
  | CAdd r j => let '(c', sg) := add now j r c in ((now, c'), map (fun s => OSig now (fst s) (snd s)) sg)
  | CAdv t => if t <? now then (st, []) else
              let '(c', o) := fire_exact (S (S (total_triggers c))) t c in ((t, c'), o)
  | CLate t => if t <? now then (st, []) else
              let '(c', o) := match c_timer c with
                              | Some d => if d <=? t then
                                  let '(c1, sg) := on_timeout t (mkCache (c_entries c) (c_next c) None) in
                                  (c1, map (fun s => OSig t (fst s) (snd s)) sg)
                                else (c, [])
                              | None => (c, [])
                              end in
              ((t, c'), o)
  | CAdvB t => if t <=? now then (st, []) else   (* whole milliseconds: deadline < t  iff  deadline <= t - 1 *)
              let '(c', o) := fire_exact (S (S (total_triggers c))) (t - 1) c in ((t, c'), o)
  | CLookup n ty => (st, [OLookup (lookup n ty c)])
  end.

(* outputs grouped per operation *)
Fixpoint crun_g (st : Z * cache) (ops : list cop) : list (list cout) :=
  match ops with
  | [] => []
  | o :: ops' => let '(st', out) := cstep st o in out :: crun_g st' ops'
  end.
Definition crun (st : Z * cache) (ops : list cop) : list cout := concat (crun_g st ops).
