(* DecoderComplete.v — C02: the decoder accepts every conformant encoding (name level). *)
From QV Require Import Base Fields SrcFacts Msg Decoder WireSpec DecoderSafety.
From Coq Require Import ZifyBool ZifyNat ZifyN.
Local Open Scope N_scope.

(* ---- bit facts by exhaustive sweep, lifted with forallb_forall ---- *)
Definition upto (n : nat) : list N := map N.of_nat (seq 0 n).
Lemma In_upto n x : x < N.of_nat n -> In x (upto n).
Proof. intro H. unfold upto. apply in_map_iff. exists (N.to_nat x). split; [lia|]. apply in_seq. lia. Qed.

Lemma plain_sweep : forallb (fun n => (n =? 0) || (N.land n label_kind_mask =? label_kind_plain)) (upto 64) = true.
Proof. vm_compute. reflexivity. Qed.
Lemma plain_kind n : n <> 0 -> n <= 63 -> (N.land n label_kind_mask =? label_kind_plain) = true.
Proof.
  intros H0 H. pose proof (proj1 (forallb_forall _ _) plain_sweep n (In_upto 64 n ltac:(lia))) as S.
  apply orb_true_iff in S as [S|S]; [lia|exact S].
Qed.

Definition ptr_ok (hi lo : N) : bool :=
  negb (N.land hi label_kind_mask =? label_kind_plain) && (N.land hi label_kind_mask =? label_kind_pointer)
  && (w16 (N.lor (N.shiftl (N.ldiff hi pointer_clear_mask) pointer_shift) lo) =? (hi - 192) * 256 + lo).
Lemma ptr_sweep : forallb (fun h => forallb (fun lo => ptr_ok (192 + h) lo) (upto 256)) (upto 64) = true.
Proof. vm_compute. reflexivity. Qed.
Lemma ptr_kind hi lo : 192 <= hi < 256 -> lo < 256 -> ptr_ok hi lo = true.
Proof.
  intros H1 H2. pose proof (proj1 (forallb_forall _ _) ptr_sweep (hi - 192) (In_upto 64 (hi - 192) ltac:(lia))) as S.
  cbv beta in S. replace (192 + (hi - 192)) with hi in S by lia.
  exact (proj1 (forallb_forall _ _) S lo (In_upto 256 lo ltac:(lia))).
Qed.

Section Complete.
  Variable mem : N -> N.
  Variable len : N.
  Hypothesis len_ok : len <= 65535.

  Lemma get_many_bytes_at l : forall off, off + lenN l <= len -> bytes_at mem off l -> get_many mem len (length l) off = Ok l.
  Proof.
    induction l as [|b l IH]; intros off Hl Hb; cbn [get_many length]; [reflexivity|].
    rewrite lenN_cons in Hl. unfold get. replace (off <? len) with true by lia. cbn [bind].
    replace (mem off) with b by (specialize (Hb O ltac:(cbn; lia)); cbn in Hb; rewrite N.add_0_r in Hb; auto).
    rewrite IH; [reflexivity|lia|].
    intros i Hi. specialize (Hb (S i) ltac:(cbn; lia)). cbn [nth] in Hb. rewrite <- Hb. f_equal. lia.
  Qed.

  Lemma rd8_at off : off < len -> rd8 mem len off = Ok (mem off, off + 1).
  Proof.
    intro H. unfold rd8, get. replace (len <? off + 1) with false by lia. replace (off <? len) with true by lia.
    cbn [bind]. unfold w16. rewrite N.mod_small by lia. reflexivity.
  Qed.

  Definition app_labels (acc : bstr) (ls : list bytes) : bstr := name_of acc ls.

  Lemma name_of_cons acc l ls : name_of (bs_app acc (l ++ [DOT])) ls = name_of acc (l :: ls).
  Proof.
    unfold name_of, bs_app. destruct ls as [|l2 ls]; cbn [bs_data dotted map concat].
    - rewrite app_nil_r. reflexivity.
    - rewrite <- app_assoc. reflexivity.
  Qed.

  Lemma labels_complete lfuel0 seg off ls e :
    len < N.of_nat lfuel0 ->
    NameAt mem len seg off ls e ->
    forall lf hf offEnd acc, len < off + N.of_nat lf -> seg <= N.of_nat hf ->
    labels mem len lf (hops mem len hf lfuel0) off offEnd seg acc
    = Ok (name_of acc ls, if offEnd =? 0 then e else offEnd).
  Proof.
    intro lfuel0_ok. induction 1 as [seg off Hoff H0 | seg off l ls e Hne Hl63 Hfit Hlen Hby Hrest IH
                   | seg off hi lo ls e' Hfit Hhi Hlo Ht Hmhi Hmlo Hrest IH];
      intros lf hf offEnd acc Hlf Hhf.
    - destruct lf as [|lf]; [lia|]. cbn [labels]. rewrite rd8_at by lia. cbn [bind]. rewrite H0. cbn. reflexivity.
    - destruct lf as [|lf]; [lia|]. cbn [labels]. rewrite rd8_at by lia. cbn [bind]. rewrite Hlen.
      assert (lenN l <> 0) by (destruct l; [congruence|rewrite lenN_cons; lia]).
      replace (lenN l =? 0) with false by lia. rewrite plain_kind by assumption.
      replace (len <? off + 1 + lenN l) with false by lia.
      replace (N.to_nat (lenN l)) with (length l) by (unfold lenN; lia).
      rewrite get_many_bytes_at by (assumption || lia). cbn [bind].
      unfold w16. rewrite N.mod_small by lia.
      rewrite (IH lf hf offEnd (bs_app acc (l ++ [DOT]))) by lia. rewrite name_of_cons. reflexivity.
    - destruct lf as [|lf]; [lia|]. cbn [labels]. rewrite rd8_at by lia. cbn [bind]. rewrite Hmhi.
      replace (hi =? 0) with false by lia.
      pose proof (ptr_kind hi lo Hhi Hlo) as PK. unfold ptr_ok in PK.
      apply andb_true_iff in PK as [PK P3]. apply andb_true_iff in PK as [P1 P2].
      apply negb_true_iff in P1. rewrite P1, P2. rewrite rd8_at by lia. cbn [bind]. rewrite Hmlo.
      apply N.eqb_eq in P3. rewrite P3.
      set (t := (hi - 192) * 256 + lo) in *.
      replace (seg <=? t) with false by lia.
      destruct hf as [|hf]; [lia|]. cbn [hops].
      rewrite (IH lfuel0 hf (if offEnd =? 0 then off + 1 + 1 else offEnd) acc) by lia.
      f_equal. f_equal. destruct (offEnd =? 0) eqn:E.
      + replace (off + 1 + 1 =? 0) with false by lia. lia.
      + rewrite E. reflexivity.
  Qed.

  Theorem parse_name_complete off ls e acc fuel :
    (N.to_nat len < fuel)%nat ->
    NameAt mem len off off ls e -> parse_name mem len fuel off acc = Ok (name_of acc ls, e).
  Proof.
    intros Hf H. unfold parse_name. destruct fuel as [|hf] eqn:E; [lia|]. cbn [hops]. rewrite <- E.
    assert (off < len) by (inversion H; lia).
    rewrite (labels_complete fuel off off ls e ltac:(lia) H fuel hf 0 acc) by lia. reflexivity.
  Qed.
End Complete.
