(* ProviderUniform.v — C13: a provider never mixes a withdrawal with an announcement in one multicast.  Every multicast
   response the composite (hostname + provider + prober) emits names its records either all with TTL 0 (a goodbye) or
   all with a live TTL (an announcement); a listener is therefore never left holding part of a service.  This is what
   acceptor code 44 (ProviderSpec.c10_response) demands of the implementation's traces. *)
From QV Require Import Base Fields SrcFacts Msg SrcDecisions Cache CacheSpec CacheProofs Sim SimProofs Prober ProberProofs Hostname HostnameProofs HostnameInv Resolver Provider ProviderSpec ProviderProofs ProviderListener ProviderConverge ProviderGoodbye Browser BrowserProofs BrowserInv NetProofs NetHop NetPair NetLag.
Local Open Scope Z_scope.

Definition uniform_ttl (rs : list record) : bool :=
  forallb (fun r => (r_ttl r =? 0)%N) rs || forallb (fun r => negb (r_ttl r =? 0)%N) rs.

Lemma script_uniform T L es : Script T L es ->
  forall m, In (ESendAll m) es -> m_response m = true -> uniform_ttl (m_records m) = true.
Proof.
  intro S. induction S as [L|L e es Se Ses IH|p s t nm es G Ses IH|p s t nm es G Ses IH|p s t p' s' t' nm es G G' Ses IH];
    intros m Hin Hr.
  - destruct Hin.
  - destruct Hin as [->|Hin]; [|exact (IH m Hin Hr)]. rewrite (Se m (or_introl eq_refl)) in Hr. discriminate.
  - destruct Hin as [E|Hin]; [|exact (IH m Hin Hr)]. injection E as <-. reflexivity.
  - destruct Hin as [E|Hin]; [|exact (IH m Hin Hr)]. injection E as <-.
    destruct G as (_ & _ & Hp & Hs & Ht & _). unfold uniform_ttl, announcement. cbn [m_records forallb].
    rewrite Hp, Hs, Ht. reflexivity.
  - destruct Hin as [E|Hin]; [|exact (IH m Hin Hr)]. injection E as <-.
    destruct G' as (_ & _ & Hp & Hs & Ht & _). unfold uniform_ttl, announcement. cbn [m_records forallb].
    rewrite Hp, Hs, Ht. reflexivity.
Qed.

Theorem multicasts_are_uniform T now c ev L m :
  CInv c L -> TInv T c -> one_provider c ev -> ev_type_ok T ev ->
  In (ESendAll m) (snd (comp_handle now c ev)) -> m_response m = true -> uniform_ttl (m_records m) = true.
Proof. intros Iv N One Ty. apply (script_uniform T L), (step_script T now c ev L Iv N One Ty). Qed.

(* the shape acceptor code 44 rejects never occurs: three records, some withdrawn and some live *)
Corollary never_mixed T now c ev L m p s x :
  CInv c L -> TInv T c -> one_provider c ev -> ev_type_ok T ev ->
  In (ESendAll m) (snd (comp_handle now c ev)) -> m_response m = true -> m_records m = [p; s; x] ->
  negb (Bool.eqb (r_ttl p =? 0)%N (r_ttl s =? 0)%N && Bool.eqb (r_ttl p =? 0)%N (r_ttl x =? 0)%N) = false.
Proof.
  intros Iv N One Ty Hin Hr E. pose proof (multicasts_are_uniform T now c ev L m Iv N One Ty Hin Hr) as U.
  unfold uniform_ttl in U. rewrite E in U. cbn [forallb] in U.
  destruct (r_ttl p =? 0)%N, (r_ttl s =? 0)%N, (r_ttl x =? 0)%N; cbn in *; congruence.
Qed.

(* run level: in every state the composite reaches by ANY sequence of handler invocations whose updates name type T
   (preach: the provider half of the pair network; the listening browser plays no role here), every multicast response of
   every further step is uniform *)
Theorem multicasts_are_uniform_in_every_run T c L w now ev m :
  T <> [] -> bytes_eqb T browse_type = false -> preach bhear T c L w -> one_provider c ev -> ev_type_ok T ev ->
  In (ESendAll m) (snd (comp_handle now c ev)) -> m_response m = true -> uniform_ttl (m_records m) = true.
Proof.
  intros HT Hbr R One Ty.
  destruct (preach_inv bhear bhear_app bhear_silent hear_goodbye_effect hear_fresh_effect hear_over_effect T c L w HT Hbr R) as [IT _].
  pose proof (lreach_inv _ _ (preach_lreach bhear T c L w R)) as Iv.
  apply (multicasts_are_uniform T now c ev L m Iv IT One Ty).
Qed.
