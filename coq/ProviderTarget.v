(* ProviderTarget.v — C12, last clause, under the kernel's timer discipline: whenever the provider serves (confirmed, no
   probe in flight) while the hostname object is registered, the SRV target is the currently registered host name. *)
From QV Require Import Base Fields SrcFacts Msg SrcDecisions Cache CacheSpec CacheProofs Sim SimProofs Prober Hostname HostnameProofs HostnameInv Provider ProviderProofs ProviderListener ProviderConverge.
From Coq Require Import ZifyBool ZifyNat ZifyN.
Local Open Scope Z_scope.

(* states of the composite under the virtual-time kernel: the clock never goes back, a timer fires at or after its
   deadline and is removed from the table first; one provider object at a time *)
Definition comp_init (rawlocal : bytes) (ifs : list iface) : sim comp :=
  let local := replace_byte DOT DASH rawlocal in
  let '(h, es) := on_rebroadcast (mkHost local ifs [] [] false 1) in
  let '(tm, sq, o) := apply_effs 0 [] 0%N es in
  mkSim 0 tm sq (mkComp h no_prov None).

Inductive creach : sim comp -> list record -> option service -> Prop :=
| cr0 rawlocal ifs : creach (comp_init rawlocal ifs) [] None
| cr_tick s L g t : creach s L g -> s_now s <= t -> creach (mkSim t (s_tm s) (s_seq s) (s_st s)) L g
| cr_event s L g ev : creach s L g -> match ev with EvTimer _ => False | _ => True end -> one_provider (s_st s) ev ->
    creach (fst (dispatch comp papi comp_handle s ev))
           (listen L (snd (comp_handle (s_now s) (s_st s) ev))) (req_step g (s_st s) ev)
| cr_timer s L g tid d sq : creach s L g -> In (tid, d, sq) (s_tm s) -> d <= s_now s ->
    creach (fst (dispatch comp papi comp_handle (mkSim (s_now s) (tm_remove tid (s_tm s)) (s_seq s) (s_st s)) (EvTimer tid)))
           (listen L (snd (comp_handle (s_now s) (s_st s) (EvTimer tid)))) (req_step g (s_st s) (EvTimer tid)).

Lemma dispatch_comp_st (s : sim comp) ev : s_st (fst (dispatch comp papi comp_handle s ev)) = fst (comp_handle (s_now s) (s_st s) ev).
Proof.
  unfold dispatch. destruct (comp_handle (s_now s) (s_st s) ev) as [c' es].
  destruct (apply_effs (s_now s) (s_tm s) (s_seq s) es) as [[tm' sq'] o]. reflexivity.
Qed.

(* the kernel states are among the states of ProviderConverge / ProviderListener *)
Lemma creach_kreach12 s L g : creach s L g -> kreach12 (s_st s) L g.
Proof.
  induction 1 as [rawlocal ifs|s L g t _ IH Ht|s L g ev _ IH Hev One|s L g tid d sq _ IH Hin Hd].
  - pose proof (k12_init (replace_byte DOT DASH rawlocal) ifs) as K. unfold comp_init.
    destruct (on_rebroadcast (mkHost (replace_byte DOT DASH rawlocal) ifs [] [] false 1)) as [h es].
    destruct (apply_effs 0 [] 0%N es) as [[tm sq] o]. exact K.
  - exact IH.
  - rewrite dispatch_comp_st. apply k12_step; assumption.
  - rewrite dispatch_comp_st. cbn [s_now s_st]. apply k12_step; [exact IH|exact Logic.I].
Qed.

(* ---- which timers the handlers start ---- *)
Definition starts (tid : N) (es : list eff) : Prop := exists ms, In (EStart tid ms) es.
Definition SOK (P : N -> Prop) (es : list eff) : Prop := forall tid, starts tid es -> P tid.

Lemma SOK_nil P : SOK P [].
Proof. intros tid (ms & []). Qed.
Lemma SOK_app P a b : SOK P a -> SOK P b -> SOK P (a ++ b).
Proof. intros A B tid (ms & H). apply in_app_iff in H as [H|H]; [apply A|apply B]; exists ms; exact H. Qed.
Lemma SOK_weaken (P Q : N -> Prop) es : (forall t, P t -> Q t) -> SOK P es -> SOK Q es.
Proof. intros W S tid H. apply W, S, H. Qed.

Lemma assert_record_starts pb : SOK (fun t => t = T_PROBER) (snd (assert_record pb)).
Proof. unfold assert_record. cbn [snd]. intros tid (ms & [H|[H|[H|[]]]]); try discriminate. injection H as <- _. reflexivity. Qed.
Lemma confirm_starts p pb : SOK (fun t => t = T_PROBER) (snd (confirm p pb)).
Proof.
  unfold confirm, prober_new. destruct (match index_of DOT _ with Some i => _ | None => _ end) as [base tail].
  pose proof (assert_record_starts (mkProber base tail (pv_srvP p) 1 false)) as A. destruct (assert_record _) as [pb' es]. cbn [snd] in *.
  apply SOK_app; [|exact A]. destruct pb; [intros tid (ms & [H|[]]); discriminate|apply SOK_nil].
Qed.
Lemma on_records_starts : forall rs pb, SOK (fun t => t = T_PROBER) (snd (on_records rs pb)).
Proof.
  induction rs as [|r rs IH]; intros pb; cbn [on_records]; [apply SOK_nil|].
  destruct (prober_conflict r (pb_proposed pb)); [|apply IH].
  match goal with |- context [assert_record ?q] => pose proof (assert_record_starts q) as A; destruct (assert_record q) as [p1 e1] end.
  specialize (IH p1). destruct (on_records rs p1) as [p2 e2]. cbn [snd] in *. apply SOK_app; assumption.
Qed.
Lemma assert_hostname_starts h : SOK (fun t => t = T_REG) (snd (assert_hostname h)).
Proof. unfold assert_hostname. cbn [snd]. intros tid (ms & [H|[H|[]]]); [discriminate|]. injection H as <- _. reflexivity. Qed.
Lemma host_records_starts : forall rs h, SOK (fun t => t = T_REG) (snd (host_records rs h)).
Proof.
  induction rs as [|r rs IH]; intro h; cbn [host_records]; [apply SOK_nil|].
  destruct (hostname_conflict r (h_name h)); [|apply IH].
  match goal with |- context [assert_hostname ?q] => pose proof (assert_hostname_starts q) as A; destruct (assert_hostname q) as [h1 e1] end.
  specialize (IH h1). destruct (host_records rs h1) as [h2 e2]. cbn [snd] in *. apply SOK_app; assumption.
Qed.
Lemma prov_on_message_starts p m : SOK (fun _ => False) (prov_on_message p m).
Proof.
  rewrite prov_on_message_eq. unfold prov_on_message_old. destruct (negb (pv_confirmed p) || m_response m); [apply SOK_nil|].
  destruct (fold_left _ (m_queries m) (false, false, false, false)) as [[[sb sp] ss] st].
  destruct (fold_left _ (m_records m) (sp, ss, st)) as [[sp' ss'] st'].
  destruct (sb || sp' || (sp' || ss') || (sp' || st')); [|apply SOK_nil]. intros tid (ms & [H|[]]). discriminate.
Qed.
Lemma hostname_changed_starts c n : SOK (fun t => t = T_PROBER) (snd (prov_on_hostname_changed c n)).
Proof.
  unfold prov_on_hostname_changed. destruct (negb (pv_exists (cp_prov c))); [apply SOK_nil|].
  match goal with |- context [if pv_initialized ?p1 then _ else _] => destruct (pv_initialized p1) end; [|apply SOK_nil].
  match goal with |- context [confirm ?p1 ?pb] => pose proof (confirm_starts p1 pb) as C; destruct (confirm p1 pb) end. exact C.
Qed.
Lemma with_slot_starts (P : N -> Prop) : P T_PROBER -> forall es c, SOK P es -> SOK P (snd (with_hostname_slot c es)).
Proof.
  intros Pp. induction es as [|e es IH]; intros c S; cbn [with_hostname_slot]; [exact S|].
  assert (S' : SOK P es) by (intros tid (ms & H); apply S; exists ms; right; exact H).
  assert (Generic : forall c0, SOK P (snd (let '(c2, e2) := with_hostname_slot c0 es in (c2, e :: e2)))).
  { intro c0. specialize (IH c0 S'). destruct (with_hostname_slot c0 es) as [c2 e2]. cbn [snd] in *.
    intros tid (ms & [H|H]); [apply S; exists ms; left; exact H|apply IH; exists ms; exact H]. }
  destruct e as [m|m|ob sg p|tid ms|tid|rs]; try apply Generic.
  destruct p as [|b|sv|a|r]; try apply Generic. destruct b as [n|]; [|apply Generic].
  destruct (sg =? SIG_hostnameChanged)%N; [|apply Generic].
  pose proof (hostname_changed_starts c n) as H1. destruct (prov_on_hostname_changed c n) as [c1 e1].
  specialize (IH c1 S'). destruct (with_hostname_slot c1 es) as [c2 e2]. cbn [snd] in *.
  intros tid (ms & [H|H]); [discriminate|]. apply in_app_iff in H as [H|H]; [rewrite (H1 tid (ex_intro _ ms H)); exact Pp|apply IH; exists ms; exact H].
Qed.

(* every timer a handler of the composite starts is one of the three; the re-assertion timer only from the registration handler *)
Lemma comp_starts now c ev :
  SOK (fun t => t = T_PROBER \/ t = T_REG \/ (t = T_REB /\ ev = EvTimer T_REG)) (snd (comp_handle now c ev)).
Proof.
  destruct ev as [m|tid|a]; cbn [comp_handle].
  - assert (H1 : SOK (fun t => t = T_REG) (snd (host_handle now (cp_host c) (EvMsg m)))).
    { cbn [host_handle]. destruct (m_response m).
      - destruct (h_reg (cp_host c)); [apply SOK_nil|apply host_records_starts].
      - destruct (negb (h_reg (cp_host c))); [apply SOK_nil|]. destruct (host_answers _ _ _); [apply SOK_nil|]. intros t (ms & [H|[]]). discriminate. }
    destruct (host_handle now (cp_host c) (EvMsg m)) as [h1 e1].
    assert (H3 : SOK (fun t => t = T_PROBER) (snd (match cp_prober c with
                              | Some pb => let '(pb', e) := prober_handle now pb (EvMsg m) in (Some pb', e)
                              | None => (None, []) end))).
    { destruct (cp_prober c) as [pb|]; [|apply SOK_nil]. cbn [prober_handle].
      unfold prober_ignore_message in *. destruct (pb_confirmed pb || negb (m_response m)); [apply SOK_nil|].
      pose proof (on_records_starts (m_records m) pb) as S. destruct (on_records (m_records m) pb) as [pb' e]. exact S. }
    destruct (match cp_prober c with Some pb => _ | None => (None, []) end) as [pb e3]. cbn [fst snd] in *.
    apply SOK_app; [eapply SOK_weaken; [|exact H1]; cbn; auto|]. apply SOK_app; [|eapply SOK_weaken; [|exact H3]; cbn; auto].
    destruct (pv_exists (cp_prov c)); [eapply SOK_weaken; [|apply prov_on_message_starts]; cbn; tauto|apply SOK_nil].
  - destruct (tid =? T_PROBER)%N eqn:TP.
    + destruct (cp_prober c) as [pb|]; [|apply SOK_nil].
      unfold on_name_confirmed. destruct (pv_confirmed (cp_prov c)); cbn; intros t (ms & H); repeat (destruct H as [H|H]; [discriminate|]); destruct H.
    + cbn [host_handle]. destruct (tid =? T_REG)%N eqn:TR.
      * apply N.eqb_eq in TR. subst tid. cbn [fst snd]. apply with_slot_starts; [left; reflexivity|].
        intros t (ms & H). apply in_app_iff in H as [H|[H|[]]].
        -- rewrite host_announce_old in H. destruct (bytes_eqb _ _); [destruct H|destruct H as [H|[]]; discriminate].
        -- injection H as <- _. right. right. auto.
      * unfold on_rebroadcast, assert_hostname. cbn [fst snd]. apply with_slot_starts; [left; reflexivity|].
        intros t (ms & [H|[H|[]]]); [discriminate|]. injection H as <- _. right. left. reflexivity.
  - destruct a as [| |s|]; try apply SOK_nil.
    + destruct (pv_exists (cp_prov c)); [|apply SOK_nil]. rewrite prov_update_eq. unfold prov_update_old.
      set (p := set_prov (cp_prov c) true (pv_confirmed (cp_prov c))).
      match goal with |- context [if negb (match bs_data (r_target (pv_srvP ?q)) with [] => true | _ :: _ => false end) then _ else _] => set (p1 := q) end.
      destruct (negb (match bs_data (r_target (pv_srvP p1)) with [] => true | _ :: _ => false end)); [|apply SOK_nil].
      destruct (negb (pv_confirmed p1) || negb (bs_eqb _ (r_name (pv_srv p1)))).
      * pose proof (confirm_starts p1 (cp_prober c)) as C. destruct (confirm p1 (cp_prober c)). eapply SOK_weaken; [|exact C]. cbn. auto.
      * destruct (match cp_prober c with Some pb => _ | None => false end); [apply SOK_nil|].
        destruct (if bs_eqb (r_target (pv_srvP p1)) (r_target (pv_srv p1)) then (p1, []) else farewell p1) as [p2 e2] eqn:E2.
        destruct (publish p2) as [p3 e3] eqn:E3. cbn [snd]. intros t (ms & H). exfalso.
        apply in_app_iff in H as [H|H]; [destruct (cp_prober c); [destruct H as [H|[]]; discriminate|destruct H]|].
        apply in_app_iff in H as [H|H].
        -- destruct (bs_eqb (r_target (pv_srvP p1)) (r_target (pv_srv p1))); [injection E2 as _ <-; destruct H|].
           unfold farewell in E2. injection E2 as _ <-. destruct H as [H|[]]. discriminate.
        -- unfold publish in E3. injection E3 as _ <-. destruct H as [H|[]]. discriminate.
    + destruct (pv_exists (cp_prov c)); [|apply SOK_nil].
      destruct (pv_confirmed (cp_prov c)); cbn; intros t (ms & H); exfalso.
      * destruct H as [H|H]; [discriminate|]. destruct (cp_prober c); [destruct H as [H|[]]; discriminate|destruct H].
      * destruct (cp_prober c); [destruct H as [H|[]]; discriminate|destruct H].
Qed.

(* ---- the timer table ---- *)
Lemma apply_effs_tm_has now tid : forall es tm sq,
  tm_has (fst (fst (apply_effs now tm sq es))) tid -> tm_has tm tid \/ starts tid es.
Proof.
  induction es as [|e es IH]; intros tm sq H; cbn [apply_effs] in H; [left; exact H|].
  assert (Lift : starts tid es -> starts tid (e :: es)) by (intros (ms & X); exists ms; right; exact X).
  destruct e as [m|m|ob sg p|t ms|t|rs].
  - destruct (apply_effs now tm sq es) as [[tm' sq'] o] eqn:E. cbn [fst] in H.
    destruct (IH tm sq ltac:(rewrite E; exact H)) as [X|X]; auto.
  - destruct (apply_effs now tm sq es) as [[tm' sq'] o] eqn:E. cbn [fst] in H.
    destruct (IH tm sq ltac:(rewrite E; exact H)) as [X|X]; auto.
  - destruct (apply_effs now tm sq es) as [[tm' sq'] o] eqn:E. cbn [fst] in H.
    destruct (IH tm sq ltac:(rewrite E; exact H)) as [X|X]; auto.
  - destruct (IH _ _ H) as [X|X]; [|auto]. apply tm_has_app in X as [X|X].
    + left. destruct X as (d & q & X). exists d, q. eapply In_tm_remove, X.
    + cbn in X. subst t. right. exists ms. left. reflexivity.
  - destruct (IH _ _ H) as [X|X]; [|auto]. left. destruct X as (d & q & X). exists d, q. eapply In_tm_remove, X.
  - destruct (apply_effs now tm sq es) as [[tm' sq'] o] eqn:E. cbn [fst] in H.
    destruct (IH tm sq ltac:(rewrite E; exact H)) as [X|X]; auto.
Qed.

Lemma with_slot_host : forall es c, cp_host (fst (with_hostname_slot c es)) = cp_host c.
Proof.
  induction es as [|e es IH]; intro c; cbn [with_hostname_slot]; [reflexivity|].
  assert (G : cp_host (fst (let '(c2, e2) := with_hostname_slot c es in (c2, e :: e2))) = cp_host c)
    by (specialize (IH c); destruct (with_hostname_slot c es); exact IH).
  destruct e as [m|m|ob sg p|t ms|t|rs]; try exact G. destruct p as [|b|sv|a|r]; try exact G. destruct b as [n|]; [|exact G].
  destruct (sg =? SIG_hostnameChanged)%N; [|exact G].
  assert (H1 : cp_host (fst (prov_on_hostname_changed c n)) = cp_host c).
  { unfold prov_on_hostname_changed. destruct (negb (pv_exists (cp_prov c))); [reflexivity|].
    match goal with |- context [if pv_initialized ?p1 then _ else _] => destruct (pv_initialized p1) end; [|reflexivity].
    match goal with |- context [confirm ?p1 ?pb] => destruct (confirm p1 pb) end. reflexivity. }
  destruct (prov_on_hostname_changed c n) as [c1 e1]. specialize (IH c1). destruct (with_hostname_slot c1 es). cbn [fst] in *. congruence.
Qed.

Lemma comp_host now c ev :
  cp_host (fst (comp_handle now c ev)) =
  match ev with
  | EvMsg m => fst (host_handle now (cp_host c) (EvMsg m))
  | EvTimer tid => if (tid =? T_PROBER)%N then cp_host c else fst (host_handle now (cp_host c) (EvTimer tid))
  | EvApi _ => cp_host c
  end.
Proof.
  destruct ev as [m|tid|a]; cbn [comp_handle].
  - destruct (host_handle now (cp_host c) (EvMsg m)) as [h1 e1]. destruct (match cp_prober c with Some pb => _ | None => (None, []) end). reflexivity.
  - destruct (tid =? T_PROBER)%N.
    + destruct (cp_prober c); [|reflexivity]. destruct (on_name_confirmed _ _). reflexivity.
    + destruct (host_handle now (cp_host c) (EvTimer tid)) as [h1 e1]. cbn [fst snd]. rewrite with_slot_host. reflexivity.
  - destruct a as [| |s|]; try reflexivity.
    + destruct (pv_exists (cp_prov c)); [|reflexivity]. rewrite prov_update_eq. unfold prov_update_old.
      match goal with |- context [if negb ?x then _ else _] => destruct (negb x) end; [|reflexivity].
      match goal with |- context [if ?x || ?y then _ else _] => destruct (x || y) end.
      * match goal with |- context [confirm ?p1 ?pb] => destruct (confirm p1 pb) end. reflexivity.
      * match goal with |- context [if ?x then _ else _] => destruct x end; [reflexivity|].
        destruct (if bs_eqb _ _ then _ else _) as [p2 e2]. destruct (publish p2). reflexivity.
    + destruct (pv_exists (cp_prov c)); [|reflexivity]. destruct (if pv_confirmed (cp_prov c) then _ else _). reflexivity.
Qed.

Definition known (tid : N) : Prop := tid = T_REG \/ tid = T_REB \/ tid = T_PROBER.
Definition Known (tm : timers) : Prop := forall tid, tm_has tm tid -> known tid.
Definition RebOK (s : sim comp) : Prop := h_reg (cp_host (s_st s)) = false -> ~ tm_has (s_tm s) T_REB.

Lemma dispatch_tm (s : sim comp) ev tid :
  tm_has (s_tm (fst (dispatch comp papi comp_handle s ev))) tid ->
  tm_has (s_tm s) tid \/ starts tid (snd (comp_handle (s_now s) (s_st s) ev)).
Proof.
  unfold dispatch. destruct (comp_handle (s_now s) (s_st s) ev) as [c' es]. cbn [snd].
  pose proof (apply_effs_tm_has (s_now s) tid es (s_tm s) (s_seq s)) as A.
  destruct (apply_effs (s_now s) (s_tm s) (s_seq s) es) as [[tm' sq'] o]. exact A.
Qed.

Lemma host_records_prev : forall rs h, h_prev (fst (host_records rs h)) = h_prev h /\ h_reg (fst (host_records rs h)) = h_reg h.
Proof.
  induction rs as [|r rs IH]; intro h; cbn [host_records]; [auto|].
  destruct (hostname_conflict r (h_name h)); [|apply IH]. unfold assert_hostname.
  match goal with |- context [host_records rs ?h1] => specialize (IH h1); destruct (host_records rs h1) as [h2 e2] end. exact IH.
Qed.
Lemma host_msg_keeps now h m : let h' := fst (host_handle now h (EvMsg m)) in
  h_reg h' = h_reg h /\ h_prev h' = h_prev h /\ (h_reg h = true -> h' = h).
Proof.
  cbn [host_handle]. destruct (m_response m).
  - destruct (h_reg h) eqn:R; [cbn; auto|]. destruct (host_records_prev (m_records m) h) as [A B]. cbn zeta. rewrite A, B, R. repeat split; auto. discriminate.
  - destruct (negb (h_reg h)); [cbn; auto|]. destruct (host_answers h (m_addr m) (m_queries m)); cbn; auto.
Qed.

Theorem creach_timers s L g : creach s L g -> Known (s_tm s) /\ RebOK s.
Proof.
  induction 1 as [rawlocal ifs|s L g t _ [IK IR] Ht|s L g ev _ [IK IR] Hev One|s L g tid d sq _ [IK IR] Hin Hd].
  - unfold comp_init, on_rebroadcast, assert_hostname. cbn. split.
    + intros tid (d & sq & [H|[]]). injection H as <- _ _. left. reflexivity.
    + intros _ (d & sq & [H|[]]). discriminate.
  - split; [exact IK|exact IR].
  - split.
    + intros tid H. apply dispatch_tm in H as [H|H]; [exact (IK tid H)|].
      destruct (comp_starts _ _ _ tid H) as [->|[->|[-> _]]]; unfold known; auto.
    + intros R H. apply dispatch_tm in H as [H|H].
      * revert R. rewrite dispatch_comp_st, comp_host. destruct ev as [m|tid|a]; [|destruct Hev|].
        -- destruct (host_msg_keeps (s_now s) (cp_host (s_st s)) m) as (A & _). rewrite A. intro R. exact (IR R H).
        -- intro R. exact (IR R H).
      * destruct (comp_starts _ _ _ _ H) as [X|[X|[_ X]]]; try discriminate. subst ev. destruct Hev.
  - set (s1 := mkSim (s_now s) (tm_remove tid (s_tm s)) (s_seq s) (s_st s)).
    assert (Kt : known tid) by (apply IK; exists d, sq; exact Hin).
    split.
    + intros t H. apply dispatch_tm in H as [H|H].
      * apply IK. destruct H as (d0 & q0 & H). exists d0, q0. eapply In_tm_remove, H.
      * destruct (comp_starts _ _ _ t H) as [->|[->|[-> _]]]; unfold known; auto.
    + intros R H. apply dispatch_tm in H as [H|H].
      * cbn [s1 s_tm] in H. revert R. rewrite dispatch_comp_st, comp_host. cbn [s1 s_now s_st].
        destruct Kt as [-> | [-> | ->]].
        -- change (T_REG =? T_PROBER)%N with false. cbn [host_handle]. rewrite N.eqb_refl. cbn. discriminate.
        -- intros _. exact (tm_remove_not_in T_REB (s_tm s) H).
        -- rewrite N.eqb_refl. intro R. apply (IR R). destruct H as (d0 & q0 & H). exists d0, q0. eapply In_tm_remove, H.
      * destruct (comp_starts _ _ _ _ H) as [X|[X|[_ X]]]; try discriminate. cbn [s1 s_now s_st] in X. injection X as ->.
        revert R. rewrite dispatch_comp_st, comp_host. cbn [s1 s_now s_st]. change (T_REG =? T_PROBER)%N with false. cbn [host_handle]. rewrite N.eqb_refl. cbn. discriminate.
Qed.

(* ---- the SRV proposal's target is the last registered host name (or none has been learnt) ---- *)
Definition last_registered (h : hostst) : bytes := if h_reg h then h_name h else h_prev h.
Definition TargetOK (c : comp) : Prop :=
  pv_exists (cp_prov c) = true ->
  bs_data (r_target (pv_srvP (cp_prov c))) = [] \/ r_target (pv_srvP (cp_prov c)) = Some (last_registered (cp_host c)).

Lemma prov_update_target c s :
  let c' := fst (prov_update c s) in
  pv_exists (cp_prov c') = pv_exists (cp_prov c) /\
  r_target (pv_srvP (cp_prov c')) = if h_reg (cp_host c) then Some (h_name (cp_host c)) else r_target (pv_srvP (cp_prov c)).
Proof.
  rewrite prov_update_eq. unfold prov_update_old.
  set (p := set_prov (cp_prov c) true (pv_confirmed (cp_prov c))).
  match goal with |- context [if negb (match bs_data (r_target (pv_srvP ?q)) with [] => true | _ :: _ => false end) then _ else _] => set (p1 := q) end.
  assert (E : pv_exists p1 = pv_exists (cp_prov c) /\
              r_target (pv_srvP p1) = if h_reg (cp_host c) then Some (h_name (cp_host c)) else r_target (pv_srvP (cp_prov c))).
  { unfold p1, p. cbn [pv_exists pv_srvP set_proposed set_prov]. destruct (h_reg (cp_host c)); cbn; auto. }
  destruct (negb (match bs_data (r_target (pv_srvP p1)) with [] => true | _ :: _ => false end)); [|exact E].
  destruct (negb (pv_confirmed p1) || negb (bs_eqb _ (r_name (pv_srv p1)))).
  - destruct (confirm p1 (cp_prober c)). exact E.
  - destruct (match cp_prober c with Some pb => _ | None => false end); [exact E|].
    assert (X : pv_exists (fst (if bs_eqb (r_target (pv_srvP p1)) (r_target (pv_srv p1)) then (p1, []) else farewell p1)) = pv_exists p1 /\
                pv_srvP (fst (if bs_eqb (r_target (pv_srvP p1)) (r_target (pv_srv p1)) then (p1, []) else farewell p1)) = pv_srvP p1)
      by (destruct (bs_eqb _ _); cbn; auto).
    destruct (if bs_eqb (r_target (pv_srvP p1)) (r_target (pv_srv p1)) then (p1, []) else farewell p1) as [p2 e2]. cbn [fst] in X.
    pose proof (publish_state p2) as PS. destruct (publish p2) as [p3 e3]. cbn [fst cp_prov] in *.
    destruct PS as (Y1 & _ & _ & _ & Y5 & _). destruct X as [X1 X2]. destruct E as [E1 E2]. rewrite Y1, Y5, X1, X2. auto.
Qed.

Theorem creach_target s L g : creach s L g -> TargetOK (s_st s).
Proof.
  induction 1 as [rawlocal ifs|s L g t _ IT Ht|s L g ev R IT Hev One|s L g tid d sq R IT Hin Hd].
  - unfold comp_init. destruct (on_rebroadcast _) as [h es]. destruct (apply_effs 0 [] 0%N es) as [[tm sq] o]. intro X. discriminate.
  - exact IT.
  - rewrite dispatch_comp_st. set (c := s_st s) in *. destruct ev as [m|tid|a]; [|destruct Hev|].
    + (* a message: the provider's proposals do not change; the registered name / previous name do not change *)
      unfold TargetOK. rewrite comp_host. cbn [comp_handle].
      destruct (host_msg_keeps (s_now s) (cp_host c) m) as (A & B & C0).
      destruct (host_handle (s_now s) (cp_host c) (EvMsg m)) as [h1 e1].
      destruct (match cp_prober c with Some pb => _ | None => (None, []) end) as [pb e3]. cbn [fst snd cp_prov] in *.
      intro Ex. destruct (IT Ex) as [T|T]; [left; exact T|right]. rewrite T. unfold last_registered. rewrite A.
      destruct (h_reg (cp_host c)) eqn:Rg; [rewrite (C0 eq_refl); reflexivity|rewrite B; reflexivity].
    + destruct a as [| |sv|]; cbn [comp_handle].
      * exact IT.
      * cbn [fst]. intros _. unfold last_registered. cbn [cp_prov cp_host]. destruct (h_reg (cp_host c)); cbn; auto.
      * destruct (pv_exists (cp_prov c)) eqn:Ex; [|exact IT].
        destruct (prov_update_target c sv) as [U1 U2]. pose proof (comp_host (s_now s) c (EvApi (PUpdate sv))) as CH.
        cbn [comp_handle] in CH. rewrite Ex in CH. cbn zeta in U1, U2.
        intro Ex'. rewrite U2. unfold last_registered. rewrite CH. destruct (h_reg (cp_host c)) eqn:Rg; [right; reflexivity|].
        specialize (IT Ex). unfold last_registered in IT. rewrite Rg in IT. exact IT.
      * destruct (pv_exists (cp_prov c)); [|exact IT].
        destruct (if pv_confirmed (cp_prov c) then farewell (cp_prov c) else (cp_prov c, [])) as [p' es]. cbn [fst]. intro X. discriminate.
  - (* a timer fires *)
    destruct (creach_timers _ _ _ R) as [IK IR].
    assert (Kt : known tid) by (apply IK; exists d, sq; exact Hin).
    rewrite dispatch_comp_st. cbn [s_now s_st]. set (c := s_st s) in *. set (now := s_now s).
    destruct Kt as [-> | [-> | ->]].
    + (* registration: the name is announced to the provider when it differs from the previous one *)
      cbn [comp_handle]. change (T_REG =? T_PROBER)%N with false. cbn [host_handle]. rewrite N.eqb_refl.
      set (h := cp_host c). set (h' := set_host h (h_name h) (h_prev h) true (h_suffix h)).
      rewrite ?host_announce_old in *. destruct (bytes_eqb (h_name h) (h_prev h)) eqn:E.
      * apply bytes_eqb_eq in E. cbn [app fst snd with_hostname_slot]. unfold TargetOK. cbn [cp_prov cp_host]. intro Ex.
        destruct (IT Ex) as [T|T]; [left; exact T|right]. rewrite T. unfold last_registered. cbn [h' set_host h_reg h_name]. fold h.
        destruct (h_reg h); [reflexivity|congruence].
      * cbn [app fst snd with_hostname_slot]. change (SIG_hostnameChanged =? SIG_hostnameChanged)%N with true. cbv iota.
        set (c1 := mkComp h' (cp_prov c) (cp_prober c)).
        assert (H1 : TargetOK (fst (prov_on_hostname_changed c1 (h_name h))) /\ cp_host (fst (prov_on_hostname_changed c1 (h_name h))) = h').
        { unfold prov_on_hostname_changed. destruct (negb (pv_exists (cp_prov c1))) eqn:Ex.
          - split; [|reflexivity]. intro X. apply negb_true_iff in Ex. cbn [fst] in X. congruence.
          - match goal with |- context [if pv_initialized ?p1 then _ else _] => destruct (pv_initialized p1) end.
            + match goal with |- context [confirm ?p1 ?pb] => destruct (confirm p1 pb) end. cbn [fst cp_prov cp_host]. split; [|reflexivity].
              intros _. right. cbn. reflexivity.
            + cbn [fst cp_prov cp_host]. split; [|reflexivity]. intros _. right. cbn. reflexivity. }
        destruct (prov_on_hostname_changed c1 (h_name h)) as [c2 e2]. cbn [fst snd] in *. exact (proj1 H1).
    + (* re-assertion: only while registered; the registered name becomes the previous one *)
      assert (Rg : h_reg (cp_host c) = true).
      { destruct (h_reg (cp_host c)) eqn:E; [reflexivity|]. exfalso. apply (IR E). exists d, sq. exact Hin. }
      cbn [comp_handle]. change (T_REB =? T_PROBER)%N with false. cbn [host_handle]. change (T_REB =? T_REG)%N with false.
      unfold on_rebroadcast, assert_hostname. cbn [fst snd with_hostname_slot]. unfold TargetOK. cbn [cp_prov cp_host]. intro Ex.
      destruct (IT Ex) as [T|T]; [left; exact T|right]. rewrite T. unfold last_registered. rewrite Rg. cbn. reflexivity.
    + (* the prober's timer: the proposals are left as they are *)
      cbn [comp_handle]. rewrite N.eqb_refl. destruct (cp_prober c) as [pb|]; [|exact IT].
      pose proof (on_name_confirmed_fields (r_name (pb_proposed pb)) (cp_prov c)) as F. cbv zeta in F.
      destruct (on_name_confirmed (r_name (pb_proposed pb)) (cp_prov c)) as [p' es]. cbn [fst cp_prov cp_host] in *.
      destruct F as (F1 & _ & _ & _ & F5 & _). unfold TargetOK. cbn [cp_prov cp_host]. rewrite F1, F5. exact IT.
Qed.

(* C12, last clause: serving while registered means pointing at the currently registered host name *)
Theorem serving_targets_current_hostname s L g :
  creach s L g ->
  pv_exists (cp_prov (s_st s)) = true -> pv_confirmed (cp_prov (s_st s)) = true -> cp_prober (s_st s) = None ->
  h_reg (cp_host (s_st s)) = true ->
  r_target (pv_srv (cp_prov (s_st s))) = Some (h_name (cp_host (s_st s))).
Proof.
  intros R Ex Cf Np Rg. pose proof (creach_target _ _ _ R Ex) as T. pose proof (kreach12_inv _ _ _ (creach_kreach12 _ _ _ R)) as K.
  destruct (ki_pub _ _ K Ex Cf Np) as (_ & _ & _ & P4 & _). rewrite P4.
  destruct T as [T|T]; [exfalso; exact (ki_tgt _ _ K Ex Cf T)|]. rewrite T. unfold last_registered. rewrite Rg. reflexivity.
Qed.

(* ---- the executable kernel (Sim.step, as run by comp_run and by the correspondence check) stays inside creach, for
   scripts that create a provider only when none exists ---- *)
Definition creachable (s : sim comp) : Prop := exists L g, creach s L g.
Definition op_ok (s : sim comp) (o : aop papi) : Prop :=
  match o with AApi PNewProv => pv_exists (cp_prov (s_st s)) = false | _ => True end.

Lemma fire_due_creach : forall fuel t strict late s,
  (late = true -> t <= s_now s) -> creachable s ->
  creachable (fst (fire_due comp papi comp_handle fuel t strict late s)).
Proof.
  induction fuel as [|f IH]; intros t strict late s Hl R; cbn [fire_due]; [exact R|].
  destruct (tm_next (s_tm s) t strict None) as [[[tid d] sq]|] eqn:E; [|exact R].
  apply tm_next_spec in E as [E|[Hin Hd]]; [discriminate|]. cbn [fst snd] in Hd.
  set (now' := if late then s_now s else Z.max (s_now s) d).
  assert (Hn : s_now s <= now') by (unfold now'; destruct late; lia).
  assert (Hd' : d <= now') by (unfold now'; destruct late; [specialize (Hl eq_refl)|]; lia).
  destruct R as (L & g & R).
  pose proof (cr_timer _ _ _ tid d sq (cr_tick _ _ _ now' R Hn) Hin Hd') as R2. cbn [s_now s_tm s_seq s_st] in R2.
  set (s1 := mkSim now' (tm_remove tid (s_tm s)) (s_seq s) (s_st s)) in *.
  pose proof (dispatch_now comp papi comp_handle s1 (EvTimer tid)) as N2.
  destruct (dispatch comp papi comp_handle s1 (EvTimer tid)) as [s2 o1]. cbn [fst] in *.
  specialize (IH t strict late s2 ltac:(intro X; rewrite N2; unfold s1, now'; cbn [s_now]; rewrite X; apply Hl, X) (ex_intro _ _ (ex_intro _ _ R2))).
  destruct (fire_due comp papi comp_handle f t strict late s2) as [s3 o2]. exact IH.
Qed.

Lemma step_creach fuel (s : sim comp) (o : aop papi) :
  op_ok s o -> creachable s -> creachable (fst (step comp papi comp_handle fuel s o)).
Proof.
  intros Ok R. destruct o as [m|t|t|t|a]; cbn [step].
  - destruct R as (L & g & R). eexists _, _. exact (cr_event _ _ _ (EvMsg m) R Logic.I Logic.I).
  - destruct (t <? s_now s); [exact R|].
    pose proof (fire_due_creach fuel t false false s ltac:(discriminate) R) as F.
    destruct (fire_due comp papi comp_handle fuel t false false s) as [s' o]. cbn [fst] in *.
    destruct F as (L & g & F). exists L, g. apply (cr_tick _ _ _ _ F). lia.
  - destruct (t <? s_now s); [exact R|].
    pose proof (fire_due_creach fuel t true false s ltac:(discriminate) R) as F.
    destruct (fire_due comp papi comp_handle fuel t true false s) as [s' o]. cbn [fst] in *.
    destruct F as (L & g & F). exists L, g. apply (cr_tick _ _ _ _ F). lia.
  - destruct (t <? s_now s); [exact R|].
    apply fire_due_creach; [intros _; cbn; lia|]. destruct R as (L & g & R). exists L, g. apply (cr_tick _ _ _ _ R). lia.
  - destruct R as (L & g & R). eexists _, _. apply (cr_event _ _ _ (EvApi a) R Logic.I). destruct a; try exact Logic.I. exact Ok.
Qed.

Fixpoint ops_ok (fuel : nat) (s : sim comp) (ops : list (aop papi)) : Prop :=
  match ops with
  | [] => True
  | o :: ops' => op_ok s o /\ ops_ok fuel (fst (step comp papi comp_handle fuel s o)) ops'
  end.

Theorem comp_run_creachable fuel rawlocal ifs : forall ops,
  ops_ok fuel (comp_init rawlocal ifs) ops ->
  creachable (state_after comp papi comp_handle fuel (comp_init rawlocal ifs) ops).
Proof.
  intros ops. assert (R0 : creachable (comp_init rawlocal ifs)) by (exists [], None; constructor).
  revert R0. generalize (comp_init rawlocal ifs). unfold state_after.
  induction ops as [|o ops IH]; intros s R Ok; cbn [fold_left]; [exact R|]. destruct Ok as [O1 O2]. apply IH; [apply step_creach; assumption|exact O2].
Qed.
