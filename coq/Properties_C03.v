(* Properties_C03.v — decoding arbitrary bytes is memory-safe, terminating and self-contained. *)
From QV Require Import Base Fields SrcFacts Msg Decoder DecoderSafety.
Local Open Scope N_scope.

(* For every buffer content, every length up to 65535 and every start offset, none of the three decoder
   entry points performs a raw read at an index >= length (Fault) and the fuel "length + 1" for both the
   label loop and the pointer-hop recursion is never exhausted (OutOfFuel): each run takes at most
   (length+1) hops of at most (length+1) label steps. *)
Theorem C03_name_total mem len off acc : len <= 65535 -> safe (parse_name mem len (FUEL len) off acc).
Proof. intro H. exact (parse_name_safe mem len H off acc). Qed.
Print Assumptions C03_name_total.

Theorem C03_record_total mem len off r0 : len <= 65535 -> safe (parse_record mem len (FUEL len) off r0).
Proof. intro H. exact (parse_record_safe mem len H off r0). Qed.
Print Assumptions C03_record_total.

Theorem C03_message_total mem len : len <= 65535 -> safe (from_packet mem len (FUEL len)).
Proof. intro H. exact (from_packet_safe mem len H). Qed.
Print Assumptions C03_message_total.

(* the result is determined solely by the bytes inside the buffer *)
Theorem C03_self_contained mem1 mem2 len fuel :
  (forall i, i < len -> mem1 i = mem2 i) ->
  from_packet mem1 len fuel = from_packet mem2 len fuel /\
  (forall off r0, parse_record mem1 len fuel off r0 = parse_record mem2 len fuel off r0) /\
  (forall off acc, parse_name mem1 len fuel off acc = parse_name mem2 len fuel off acc).
Proof.
  intro H. split; [exact (from_packet_ext mem1 mem2 len H fuel)|].
  split; [intros; exact (parse_record_ext mem1 mem2 len H fuel off r0)|intros; exact (parse_name_ext mem1 mem2 len H fuel off acc)].
Qed.
Print Assumptions C03_self_contained.

(* compression pointers are followed only strictly backwards: below the name's first byte, then below the
   previous target (the continuation that follows a pointer is never invoked at or above the bound) *)
Theorem C03_pointers_strictly_backwards mem len lf k1 k2 off offEnd offPtr acc :
  (forall no oe a, no < offPtr -> k1 no oe no a = k2 no oe no a) ->
  labels mem len lf k1 off offEnd offPtr acc = labels mem len lf k2 off offEnd offPtr acc.
Proof. exact (labels_pointer_bound mem len lf k1 k2 off offEnd offPtr acc). Qed.
Print Assumptions C03_pointers_strictly_backwards.

Theorem C03_forward_pointer_rejected mem len fuel off acc b b2 :
  off + 1 < len -> mem off = b -> mem (off + 1) = b2 -> b <> 0 ->
  N.land b label_kind_mask = label_kind_pointer -> label_kind_pointer <> label_kind_plain ->
  off <= w16 (N.lor (N.shiftl (N.ldiff b pointer_clear_mask) pointer_shift) b2) ->
  len <= 65535 -> parse_name mem len (S fuel) off acc = Fail.
Proof. exact (forward_pointer_rejected mem len fuel off acc b b2). Qed.
Print Assumptions C03_forward_pointer_rejected.

Theorem C03_reserved_label_rejected mem len fuel off acc b :
  off < len -> mem off = b -> b <> 0 ->
  N.land b label_kind_mask <> label_kind_plain -> N.land b label_kind_mask <> label_kind_pointer ->
  len <= 65535 -> parse_name mem len (S fuel) off acc = Fail.
Proof. exact (reserved_label_rejected mem len fuel off acc b). Qed.
Print Assumptions C03_reserved_label_rejected.

(* non-vacuity: a two-pointer loop and a self pointer are rejected, a backward pointer is followed *)
Example C03_examples :
  decode_name [192; 2; 192; 0]%N 0 = Fail /\ decode_name [192; 0]%N 0 = Fail /\
  decode_name [1; 97; 0; 192; 0]%N 3 = Ok (Some [97; 46]%N, 5) /\ decode_name [64; 0]%N 0 = Fail.
Proof. vm_compute. auto. Qed.
