(* NetProofs.v — C04 (partial): the single hop provider announcement -> browser report, at message level. *)
From QV Require Import Base Fields SrcFacts Msg SrcDecisions Cache CacheSpec CacheProofs Sim Prober Hostname Resolver Provider ProviderSpec Browser BrowserProofs.
From Coq Require Import ZifyBool ZifyNat ZifyN.
Local Open Scope Z_scope.

Lemma index_of_app_dot (nm T : list N) : index_of DOT nm = None -> index_of DOT (nm ++ DOT :: T) = Some (length nm).
Proof.
  induction nm as [|c nm IH]; cbn [index_of app length]; [intros _; rewrite N.eqb_refl; reflexivity|].
  destruct (c =? DOT)%N; [discriminate|]. intro H. destruct (index_of DOT nm) eqn:E; [discriminate|]. rewrite (IH eq_refl). reflexivity.
Qed.

Lemma split_fq_instance (nm T : list N) : index_of DOT nm = None ->
  split_fq (Some (nm ++ DOT :: T)) = (Some nm, Some T).
Proof.
  intro H. unfold split_fq. cbn [bs_data]. rewrite (index_of_app_dot nm T H).
  rewrite firstn_app, Nat.sub_diag, firstn_all, firstn_O, app_nil_r.
  replace (S (length nm)) with (length (nm ++ [DOT])) by (rewrite app_length; cbn; lia).
  replace (nm ++ DOT :: T) with ((nm ++ [DOT]) ++ T) by (rewrite <- app_assoc; reflexivity).
  rewrite skipn_app, skipn_all, Nat.sub_diag. reflexivity.
Qed.

(* the records of a provider's announcement, for the service (type T, name nm) *)
Record announces (ptr srv txt : record) (T nm : list N) : Prop := {
  an_ptr : r_name ptr = Some T /\ r_type ptr = 12%N /\ r_target ptr = Some (nm ++ DOT :: T);
  an_srv : r_name srv = Some (nm ++ DOT :: T) /\ r_type srv = 33%N;
  an_txt : r_name txt = Some (nm ++ DOT :: T) /\ r_type txt = 16%N }.

Lemma lookup_three name type (ptr srv txt : record) :
  lookup_view name type [ptr; srv; txt] =
  (if cache_lookup_match name type ptr then [ptr] else []) ++ (if cache_lookup_match name type srv then [srv] else []) ++
  (if cache_lookup_match name type txt then [txt] else []).
Proof.
  unfold lookup_view. cbn [filter].
  destruct (cache_lookup_match name type ptr), (cache_lookup_match name type srv), (cache_lookup_match name type txt); reflexivity.
Qed.

Lemma lm_type_mismatch name type r : (type =? T_ANY)%N = false -> (r_type r =? type)%N = false -> cache_lookup_match name type r = false.
Proof. intros A B. unfold cache_lookup_match. rewrite A, B. apply andb_false_r. Qed.
Lemma lm_match (l : list N) type r : r_name r = Some l -> (r_type r =? type)%N = true -> cache_lookup_match (Some l) type r = true.
Proof. intros A B. unfold cache_lookup_match. rewrite A, B. cbn [bs_is_null orb]. unfold bs_eqb. cbn [bs_data]. rewrite bytes_eqb_refl, orb_true_r. reflexivity. Qed.

(* One hop: a browser of type T (or enumerating all types) that holds exactly the three records of the announcement and
   has not reported the instance yet reports it as added, with the provider's type, name, SRV target, port and the
   (normalised) TXT attributes. *)
Theorem announcement_reported j ptr srv txt (T nm : list N) b :
  announces ptr srv txt T nm -> index_of DOT nm = None -> T <> [] ->
  (bs_eqb (b_type b) (Some browse_type) = true \/ b_type b = Some T) ->
  smap_find (nm ++ DOT :: T) (b_services b) = None ->
  snd (update_service j [ptr; srv; txt] (Some (nm ++ DOT :: T)) b) =
  [ESig (N.of_nat j) SIG_serviceAdded
        (PService (mkService (Some T) (Some nm) (r_target srv) (r_port srv)
                             (fold_left (fun a kv => attrs_insert (fst kv) (snd kv) a) (r_attrs txt) [])))].
Proof.
  intros [(P1 & P2 & P3) (S1 & S2) (X1 & X2)] Hnm HT Hty Hnew.
  unfold update_service. rewrite (split_fq_instance nm T Hnm). rewrite not_of_interest_spec. cbn [bs_data].
  assert (G0 : match T with [] => true | _ :: _ => false end = false) by (destruct T; [congruence|reflexivity]).
  rewrite G0. cbn [orb].
  match goal with |- context [if ?c then (false, b, []) else _] => assert (G : c = false) end.
  { destruct Hty as [H|H]; [rewrite H; reflexivity|]. rewrite H. unfold bs_eqb at 2. cbn [bs_data]. rewrite bytes_eqb_refl. cbn. apply andb_false_r. }
  rewrite G.
  rewrite !lookup_three.
  (* the PTR lookup by type name *)
  rewrite (lm_match T T_PTR ptr P1) by (rewrite P2; reflexivity).
  rewrite (lm_type_mismatch (Some T) T_PTR srv eq_refl) by (rewrite S2; reflexivity).
  rewrite (lm_type_mismatch (Some T) T_PTR txt eq_refl) by (rewrite X2; reflexivity).
  cbn [app].
  (* the SRV lookup by instance name *)
  rewrite (lm_type_mismatch _ T_SRV ptr eq_refl) by (rewrite P2; reflexivity).
  rewrite (lm_match _ T_SRV srv S1) by (rewrite S2; reflexivity).
  rewrite (lm_type_mismatch _ T_SRV txt eq_refl) by (rewrite X2; reflexivity).
  cbn [app].
  (* the TXT lookup *)
  rewrite (lm_type_mismatch _ T_TXT ptr eq_refl) by (rewrite P2; reflexivity).
  rewrite (lm_type_mismatch _ T_TXT srv eq_refl) by (rewrite S2; reflexivity).
  rewrite (lm_match _ T_TXT txt X1) by (rewrite X2; reflexivity).
  cbn [app fold_left]. cbn [bs_data]. rewrite Hnew. reflexivity.
Qed.

(* what the provider announces has exactly that shape once update() and a completed probe have written the proposals *)
Lemma announce_records p : m_records (announce_msg p) = [pv_ptr p; pv_srv p; pv_txt p] /\ m_response (announce_msg p) = true.
Proof. split; reflexivity. Qed.
