(* Values.v — C20: Bitmap exactly as bitmap.cpp on an abstract heap (new[] / delete[] / raw reads), Record with its
   embedded bitmap, and Message / Query / Service (whose members are Qt value types) as pure values.
   A program is a list of operations over variables; it is interpreted twice: on the heap model (where reading or
   freeing a block that is not live is Fault) and purely (every variable simply holds a value). *)
From QV Require Import Base Fields SrcFacts Msg.
Local Open Scope N_scope.

(* ---- abstract heap: block id -> live contents | freed ---- *)
Definition heap := list (option bytes).          (* index = block id; None = freed *)
Definition h_alloc (h : heap) (b : bytes) : heap * nat := (h ++ [Some b], length h).
Definition h_read (h : heap) (p : nat) : res bytes :=
  match nth_error h p with Some (Some b) => Ok b | _ => Fault end.
Definition h_free (h : heap) (p : nat) : res heap :=
  match nth_error h p with
  | Some (Some _) => Ok (firstn p h ++ None :: skipn (S p) h)
  | _ => Fault                                    (* double free / wild free *)
  end.

(* ---- BitmapPrivate { quint8 length; quint8 *data } ---- *)
Record bmobj := mkBm { bo_len : N; bo_ptr : option nat }.
Definition bm_new : bmobj := mkBm 0 None.

(* fromData(newLength, newData): data = new quint8[newLength]; copy newLength bytes from the source; length = newLength.
   The source is either a live block of the heap (reading past its end is Fault) or script-owned bytes. *)
Inductive bsrc := SrcBlock (p : option nat) | SrcBytes (b : bytes).
Definition src_bytes (h : heap) (n : N) (s : bsrc) : res bytes :=
  match s with
  | SrcBytes b => if n <=? lenN b then Ok (firstn (N.to_nat n) b) else Fault
  | SrcBlock None => if n =? 0 then Ok [] else Fault
  | SrcBlock (Some p) => do b <- h_read h p; if n <=? lenN b then Ok (firstn (N.to_nat n) b) else Fault
  end.
Definition from_data (h : heap) (n : N) (s : bsrc) : res (heap * bmobj) :=
  do b <- src_bytes h n s;
  let '(h', p) := h_alloc h b in Ok (h', mkBm n (Some p)).
(* free(): if (data) delete[] data  (the pointer is NOT reset) *)
Definition bm_free (h : heap) (o : bmobj) : res heap :=
  match bo_ptr o with Some p => h_free h p | None => Ok h end.

(* Bitmap(const Bitmap&), operator=, setData: the new buffer is filled before the old one is released *)
Definition bm_copy (h : heap) (other : bmobj) : res (heap * bmobj) := from_data h (bo_len other) (SrcBlock (bo_ptr other)).
Definition bm_assign (h : heap) (this other : bmobj) : res (heap * bmobj) :=
  do (h1, o') <- from_data h (bo_len other) (SrcBlock (bo_ptr other));
  do h2 <- bm_free h1 this; Ok (h2, o').
Definition bm_set_data (h : heap) (this : bmobj) (n : N) (s : bsrc) : res (heap * bmobj) :=
  do (h1, o') <- from_data h n s;
  do h2 <- bm_free h1 this; Ok (h2, o').
Definition bm_destroy (h : heap) (o : bmobj) : res heap := bm_free h o.
Definition bm_value (h : heap) (o : bmobj) : res bytes :=
  match bo_ptr o with
  | None => if bo_len o =? 0 then Ok [] else Fault
  | Some p => do b <- h_read h p; if bo_len o <=? lenN b then Ok (firstn (N.to_nat (bo_len o)) b) else Fault
  end.

(* ---- variables ---- *)
Inductive vclass := KBitmap | KRecord | KMessage | KQuery | KService.
Inductive hval :=                       (* heap interpretation *)
| HBitmap (o : bmobj)
| HRecord (r : record) (o : bmobj)      (* r's own r_bitmap field is ignored: the embedded Bitmap object holds it *)
| HMessage (m : message) | HQuery (q : query) | HService (s : service).
Inductive pval :=                       (* pure interpretation *)
| PBitmap (b : bytes) | PRecordV (r : record) | PMessage (m : message) | PQuery (q : query) | PServiceV (s : service).

Inductive vop :=
| VNew (v : nat) (k : vclass)
| VCopy (v w : nat)                     (* v := new T(w) *)
| VAssign (v w : nat)                   (* v = w, w may be v *)
| VSetBytes (v : nat) (b : bytes)       (* Bitmap::setData(len, script bytes) *)
| VSetSelf (v : nat) (n : N)            (* Bitmap::setData(n, this->data()), n <= length: aliasing call *)
| VSetRecord (v : nat) (r : record)     (* every Record setter, including setBitmap(Bitmap built from r_bitmap) *)
| VSetMessage (v : nat) (m : message) | VSetQuery (v : nat) (q : query) | VSetService (v : nat) (s : service)
| VEq (v w : nat)
| VGet (v : nat)
| VDel (v : nat).

Inductive vout := VOEq (b : bool) | VOVal (p : pval) | VONone | VOError.   (* VOError: ill-scoped operation *)

Definition env (A : Type) := list (option A).
Definition e_get {A} (e : env A) (v : nat) : option A := match nth_error e v with Some x => x | None => None end.
Fixpoint e_set {A} (e : env A) (v : nat) (x : option A) : env A :=
  match v, e with
  | O, [] => [x]
  | O, _ :: e' => x :: e'
  | S v', [] => None :: e_set [] v' x
  | S v', y :: e' => y :: e_set e' v' x
  end.

(* ---- pure interpretation ---- *)
Definition p_default (k : vclass) : pval :=
  match k with
  | KBitmap => PBitmap [] | KRecord => PRecordV default_record | KMessage => PMessage default_message
  | KQuery => PQuery default_query | KService => PServiceV (mkService None None None 0 [])
  end.
Definition p_same_class (a b : pval) : bool :=
  match a, b with
  | PBitmap _, PBitmap _ | PRecordV _, PRecordV _ | PMessage _, PMessage _ | PQuery _, PQuery _ | PServiceV _, PServiceV _ => true
  | _, _ => false
  end.
Definition p_eq (a b : pval) : option bool :=
  match a, b with
  | PBitmap x, PBitmap y => Some (bytes_eqb x y)
  | PRecordV x, PRecordV y => Some (record_eqb x y)
  | PServiceV x, PServiceV y => Some (service_eqb x y)
  | _, _ => None                          (* Message and Query have no operator== *)
  end.

Definition p_step (e : env pval) (o : vop) : env pval * vout :=
  match o with
  | VNew v k => match e_get e v with None => (e_set e v (Some (p_default k)), VONone) | Some _ => (e, VOError) end
  | VCopy v w => match e_get e v, e_get e w with
                 | None, Some x => (e_set e v (Some x), VONone)
                 | _, _ => (e, VOError)
                 end
  | VAssign v w => match e_get e v, e_get e w with
                   | Some a, Some x => if p_same_class a x then (e_set e v (Some x), VONone) else (e, VOError)
                   | _, _ => (e, VOError)
                   end
  | VSetBytes v b => match e_get e v with
                     | Some (PBitmap _) => if lenN b <? 256 then (e_set e v (Some (PBitmap b)), VONone) else (e, VOError)
                     | _ => (e, VOError)
                     end
  | VSetSelf v n => match e_get e v with
                    | Some (PBitmap b) => if n <=? lenN b then (e_set e v (Some (PBitmap (firstn (N.to_nat n) b))), VONone) else (e, VOError)
                    | _ => (e, VOError)
                    end
  | VSetRecord v r => match e_get e v with
                      | Some (PRecordV _) => if lenN (r_bitmap r) <? 256 then (e_set e v (Some (PRecordV r)), VONone) else (e, VOError)
                      | _ => (e, VOError)
                      end
  | VSetMessage v m => match e_get e v with Some (PMessage _) => (e_set e v (Some (PMessage m)), VONone) | _ => (e, VOError) end
  | VSetQuery v q => match e_get e v with Some (PQuery _) => (e_set e v (Some (PQuery q)), VONone) | _ => (e, VOError) end
  | VSetService v s => match e_get e v with Some (PServiceV _) => (e_set e v (Some (PServiceV s)), VONone) | _ => (e, VOError) end
  | VEq v w => match e_get e v, e_get e w with
               | Some a, Some b => match p_eq a b with Some r => (e, VOEq r) | None => (e, VOError) end
               | _, _ => (e, VOError)
               end
  | VGet v => match e_get e v with Some a => (e, VOVal a) | None => (e, VOError) end
  | VDel v => match e_get e v with Some _ => (e_set e v None, VONone) | None => (e, VOError) end
  end.

Fixpoint p_run (e : env pval) (ops : list vop) : list vout :=
  match ops with [] => [] | o :: ops' => let '(e', x) := p_step e o in x :: p_run e' ops' end.

(* ---- heap interpretation ---- *)
Definition set_rbitmap (b : bytes) (r : record) : record := set_bitmap b r.

Definition h_value (h : heap) (x : hval) : res pval :=
  match x with
  | HBitmap o => do b <- bm_value h o; Ok (PBitmap b)
  | HRecord r o => do b <- bm_value h o; Ok (PRecordV (set_rbitmap b r))
  | HMessage m => Ok (PMessage m) | HQuery q => Ok (PQuery q) | HService s => Ok (PServiceV s)
  end.
Definition h_same_class (a b : hval) : bool :=
  match a, b with
  | HBitmap _, HBitmap _ | HRecord _ _, HRecord _ _ | HMessage _, HMessage _ | HQuery _, HQuery _ | HService _, HService _ => true
  | _, _ => false
  end.

Definition h_step (st : heap * env hval) (o : vop) : res ((heap * env hval) * vout) :=
  let '(h, e) := st in
  let err := Ok (st, VOError) in
  match o with
  | VNew v k =>
      match e_get e v with
      | Some _ => err
      | None =>
          let x := match k with
                   | KBitmap => HBitmap bm_new | KRecord => HRecord default_record bm_new | KMessage => HMessage default_message
                   | KQuery => HQuery default_query | KService => HService (mkService None None None 0 [])
                   end in
          Ok ((h, e_set e v (Some x)), VONone)
      end
  | VCopy v w =>
      match e_get e v, e_get e w with
      | None, Some (HBitmap o) => do (h', o') <- bm_copy h o; Ok ((h', e_set e v (Some (HBitmap o'))), VONone)
      | None, Some (HRecord r o) =>
          (* Record(const Record&): d(new RecordPrivate) - whose Bitmap member is default-constructed - then *this = other *)
          do (h', o') <- bm_assign h bm_new o; Ok ((h', e_set e v (Some (HRecord r o'))), VONone)
      | None, Some x => Ok ((h, e_set e v (Some x)), VONone)
      | _, _ => err
      end
  | VAssign v w =>
      match e_get e v, e_get e w with
      | Some (HBitmap a), Some (HBitmap o) => do (h', o') <- bm_assign h a o; Ok ((h', e_set e v (Some (HBitmap o'))), VONone)
      | Some (HRecord _ a), Some (HRecord r o) => do (h', o') <- bm_assign h a o; Ok ((h', e_set e v (Some (HRecord r o'))), VONone)
      | Some a, Some x => if h_same_class a x then Ok ((h, e_set e v (Some x)), VONone) else err
      | _, _ => err
      end
  | VSetBytes v b =>
      match e_get e v with
      | Some (HBitmap a) => if lenN b <? 256 then do (h', o') <- bm_set_data h a (lenN b) (SrcBytes b); Ok ((h', e_set e v (Some (HBitmap o'))), VONone) else err
      | _ => err
      end
  | VSetSelf v n =>
      match e_get e v with
      | Some (HBitmap a) => if n <=? bo_len a then do (h', o') <- bm_set_data h a n (SrcBlock (bo_ptr a)); Ok ((h', e_set e v (Some (HBitmap o'))), VONone) else err
      | _ => err
      end
  | VSetRecord v r =>
      match e_get e v with
      | Some (HRecord _ a) =>
          if lenN (r_bitmap r) <? 256 then
            (* setBitmap(const Bitmap &b): a temporary Bitmap holding the bytes, assigned to the member, then destroyed *)
            do (h1, tmp) <- bm_set_data h bm_new (lenN (r_bitmap r)) (SrcBytes (r_bitmap r));
            do (h2, o') <- bm_assign h1 a tmp;
            do h3 <- bm_destroy h2 tmp;
            Ok ((h3, e_set e v (Some (HRecord r o'))), VONone)
          else err
      | _ => err
      end
  | VSetMessage v m => match e_get e v with Some (HMessage _) => Ok ((h, e_set e v (Some (HMessage m))), VONone) | _ => err end
  | VSetQuery v q => match e_get e v with Some (HQuery _) => Ok ((h, e_set e v (Some (HQuery q))), VONone) | _ => err end
  | VSetService v s => match e_get e v with Some (HService _) => Ok ((h, e_set e v (Some (HService s))), VONone) | _ => err end
  | VEq v w =>
      match e_get e v, e_get e w with
      | Some a, Some b => do pa <- h_value h a; do pb <- h_value h b;
                          match p_eq pa pb with Some r => Ok (st, VOEq r) | None => err end
      | _, _ => err
      end
  | VGet v => match e_get e v with Some a => do pa <- h_value h a; Ok (st, VOVal pa) | None => err end
  | VDel v =>
      match e_get e v with
      | Some (HBitmap a) => do h' <- bm_destroy h a; Ok ((h', e_set e v None), VONone)
      | Some (HRecord _ a) => do h' <- bm_destroy h a; Ok ((h', e_set e v None), VONone)
      | Some _ => Ok ((h, e_set e v None), VONone)
      | None => err
      end
  end.

Fixpoint h_run (st : heap * env hval) (ops : list vop) : res (list vout) :=
  match ops with
  | [] => Ok []
  | o :: ops' => do (st', x) <- h_step st o; do xs <- h_run st' ops'; Ok (x :: xs)
  end.

Definition values_run (ops : list vop) : res (list vout) := h_run ([], []) ops.
Definition values_pure (ops : list vop) : list vout := p_run [] ops.
