(* Decoder.v — model of parseInteger / parseName / parseRecord / fromPacket (dns.cpp).
   The packet is [mem : N -> N] with length [len]; a raw read the C++ performs without a preceding
   bounds check that implies index < len is the result Fault (distinct from the parse failure Fail). *)
From QV Require Import Base Fields SrcFacts Msg.
Local Open Scope N_scope.

Definition bs_app (s : bstr) (l : bytes) : bstr := Some (bs_data s ++ l).

Section Dec.
  Variable mem : N -> N.
  Variable len : N.

  (* a raw read through constData() *)
  Definition get (i : N) : res N := if i <? len then Ok (mem i) else Fault.

  (* raw reads of n consecutive bytes starting at off *)
  Fixpoint get_many (n : nat) (off : N) : res bytes :=
    match n with
    | O => Ok []
    | S n' => do b <- get off; do bs <- get_many n' (off + 1); Ok (b :: bs)
    end.

  (* parseInteger<T>: the check, then the raw read of sizeof(T) bytes, then offset += sizeof(T) in quint16 *)
  Definition rd8 (off : N) : res (N * N) :=
    if len <? off + 1 then Fail else do b <- get off; Ok (b, w16 (off + 1)).
  Definition rd16 (off : N) : res (N * N) :=
    if len <? off + 2 then Fail else
    do a <- get off; do b <- get (off + 1); Ok (a * 256 + b, w16 (off + 2)).
  Definition rd32 (off : N) : res (N * N) :=
    if len <? off + 4 then Fail else
    do a <- get off; do b <- get (off + 1); do c <- get (off + 2); do d <- get (off + 3);
    Ok (((a * 256 + b) * 256 + c) * 256 + d, w16 (off + 4)).

  (* parseName.  [labels] is the part of the forever-loop that stays inside one run of labels; following a
     pointer calls the continuation [k] (the outer recursion [hops]).  Arguments mirror the C++ locals:
     offset, offsetEnd (0 = unset), offsetPtr, and the name accumulated so far. *)
  Fixpoint labels (lfuel : nat) (k : N -> N -> N -> bstr -> res (bstr * N))
           (off offEnd offPtr : N) (acc : bstr) : res (bstr * N) :=
    match lfuel with
    | O => OutOfFuel
    | S lf =>
        do (nb, off1) <- rd8 off;
        if nb =? 0 then Ok (acc, if offEnd =? 0 then off1 else offEnd)
        else
          let kind := N.land nb label_kind_mask in
          if kind =? label_kind_plain then
            if len <? off1 + nb then Fail else
            do l <- get_many (N.to_nat nb) off1;
            labels lf k (w16 (off1 + nb)) offEnd offPtr (bs_app acc (l ++ [DOT]))
          else if kind =? label_kind_pointer then
            do (nb2, off2) <- rd8 off1;
            let newOff := w16 (N.lor (N.shiftl (N.ldiff nb pointer_clear_mask) pointer_shift) nb2) in
            if offPtr <=? newOff then Fail
            else k newOff (if offEnd =? 0 then off2 else offEnd) newOff acc
          else Fail
    end.

  Fixpoint hops (hfuel : nat) (lfuel : nat) (off offEnd offPtr : N) (acc : bstr) : res (bstr * N) :=
    match hfuel with
    | O => OutOfFuel
    | S hf => labels lfuel (hops hf lfuel) off offEnd offPtr acc
    end.

  (* fuel: one more than the packet length, for both recursions (proved sufficient) *)
  Definition parse_name (fuel : nat) (off : N) (acc : bstr) : res (bstr * N) := hops fuel fuel off 0 off acc.

  (* the TXT loop *)
  Fixpoint txt_loop (fuel : nat) (off stop : N) (acc : attrs) : res (attrs * N) :=
    match fuel with
    | O => OutOfFuel
    | S f =>
        if off <? stop then
          do (nb, off1) <- rd8 off;
          if len <? off1 + nb then Fail else
          if nb =? 0 then txt_loop f off1 stop acc
          else
            do a <- get_many (N.to_nat nb) off1;
            let acc' := match index_of EQS a with
                        | None => attrs_insert a None acc
                        | Some i => attrs_insert (firstn i a) (Some (skipn (S i) a)) acc
                        end in
            txt_loop f (w16 (off1 + nb)) stop acc'
        else Ok (acc, off)
    end.

  Definition nonzero (x : N) : bool := negb (x =? 0).

  Definition parse_record (fuel : nat) (off : N) (r0 : record) : res (record * N) :=
    do (name, o1) <- parse_name fuel off None;
    do (type, o2) <- rd16 o1;
    do (class, o3) <- rd16 o2;
    do (ttl, o4) <- rd32 o3;
    do (dlen, o5) <- rd16 o4;
    let r := set_ttl ttl (set_flush (nonzero (N.land class class_flush_mask)) (set_type type (set_name name r0))) in
    if type =? T_A then
      do (a, o6) <- rd32 o5; Ok (set_addr (A4 a) r, o6)
    else if type =? T_AAAA then
      if len <? o5 + aaaa_len then Fail else
      do b <- get_many (N.to_nat aaaa_len) o5; Ok (set_addr (A6 b) r, w16 (o5 + aaaa_len))
    else if type =? T_NSEC then
      do (next, o6) <- parse_name fuel o5 None;
      do (number, o7) <- rd8 o6;
      do (blen, o8) <- rd8 o7;
      if nonzero number || (len <? o8 + blen) then Fail else
      do bm <- get_many (N.to_nat blen) o8;
      Ok (set_bitmap bm (set_next next r), w16 (o8 + blen))
    else if type =? T_PTR then
      do (target, o6) <- parse_name fuel o5 None; Ok (set_target target r, o6)
    else if type =? T_SRV then
      do (prio, o6) <- rd16 o5;
      do (weight, o7) <- rd16 o6;
      do (port, o8) <- rd16 o7;
      do (target, o9) <- parse_name fuel o8 None;
      Ok (set_target target (set_port port (set_weight weight (set_prio prio r))), o9)
    else if type =? T_TXT then
      do (ats, o6) <- txt_loop fuel o5 (o5 + dlen) (r_attrs r); Ok (set_attrs ats r, o6)
    else Ok (r, w16 (o5 + dlen)).

  Fixpoint parse_queries (fuel : nat) (n : nat) (off : N) (acc : list query) : res (list query * N) :=
    match n with
    | O => Ok (acc, off)
    | S n' =>
        do (name, o1) <- parse_name fuel off None;
        do (type, o2) <- rd16 o1;
        do (class, o3) <- rd16 o2;
        parse_queries fuel n' o3 (acc ++ [mkQuery name type (nonzero (N.land class class_unicast_mask))])
    end.

  Fixpoint parse_records (fuel : nat) (n : nat) (off : N) (acc : list record) : res (list record * N) :=
    match n with
    | O => Ok (acc, off)
    | S n' => do (r, o1) <- parse_record fuel off default_record; parse_records fuel n' o1 (acc ++ [r])
    end.

  Definition from_packet (fuel : nat) : res message :=
    do (id, o1) <- rd16 0;
    do (flags, o2) <- rd16 o1;
    do (nq, o3) <- rd16 o2;
    do (nan, o4) <- rd16 o3;
    do (nau, o5) <- rd16 o4;
    do (nad, o6) <- rd16 o5;
    do (qs, o7) <- parse_queries fuel (N.to_nat nq) o6 [];
    do (rs, o8) <- parse_records fuel (N.to_nat (w16 (nan + nau + nad))) o7 [];
    Ok (mkMessage ANull 0 id (nonzero (N.land flags flags_response_mask)) (nonzero (N.land flags flags_truncated_mask)) qs rs).
End Dec.

(* running on a concrete byte string *)
Definition mem_of (p : bytes) : N -> N := fun i => nth (N.to_nat i) p 0.
Definition fuel_for (p : bytes) : nat := S (length p).
Definition decode (p : bytes) : res message := from_packet (mem_of p) (lenN p) (fuel_for p).
Definition decode_name (p : bytes) (off : N) : res (bstr * N) := parse_name (mem_of p) (lenN p) (fuel_for p) off None.
Definition decode_record (p : bytes) (off : N) : res (record * N) := parse_record (mem_of p) (lenN p) (fuel_for p) off default_record.
