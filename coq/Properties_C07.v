(* Properties_C07.v — a name is confirmed only after an undisturbed two-second probe. *)
From QV Require Import Base Fields SrcFacts Msg SrcDecisions Sim Prober ProberProofs.
Local Open Scope Z_scope.

(* For every probed record and every script of message deliveries and clock advances - exact (AAdv), with a
   message delivered before a timer due at the same instant (AAdvB), or late (ALate) - the outputs of the
   prober model are accepted by the C07 acceptor mon_prober: a confirmation of name n at t requires the
   latest probe to be for n at t' <= t - 2000 with no conflicting response since; the k-th probe is for
   candidate base, base-2, ...; each conflicting record (current candidate's name, probed type) is answered
   in the same handler by exactly one probe for the next candidate and nothing else is ever sent;
   at most one confirmation; nothing after it. *)
Theorem C07_prober rec0 ops fuel :
  (2 <= fuel)%nat -> Forall no_api ops -> mon_prober rec0 ops (prober_run fuel rec0 ops) = None.
Proof. exact (prober_accepted rec0 ops fuel). Qed.
Print Assumptions C07_prober.

(* the probe wait read from prober.cpp is at least the two seconds the property demands *)
Theorem C07_wait_is_two_seconds : 2000 <= probe_wait_ms.
Proof. exact probe_wait_ok. Qed.
Print Assumptions C07_wait_is_two_seconds.

(* non-vacuity: a conflict at 1999 ms moves on to "ab-2" which is confirmed at 3999, not before *)
Example C07_example :
  let r := set_type 33 (set_name (Some [97; 98; 46; 120; 46]%N) default_record) in
  let conflict := set_response true (add_record r default_message) in
  map (map (fun o => match o with OSendAll t _ => t | OSignal t _ _ _ => - t | _ => 0 end))
      (prober_run 5 r [AAdv 1999; ADeliver conflict; AAdv 3998; AAdv 3999])
  = [[0]; []; [1999]; []; [-3999]].
Proof. vm_compute. reflexivity. Qed.
