(* NetManyDup.v — the symmetric many-provider statement of NetMany.v on a duplicating link: every multicast response
   arrives 1 + d(message) times in a row at every browser. *)
From QV Require Import Base Fields SrcFacts Msg SrcDecisions Cache CacheSpec CacheProofs Sim SimProofs Prober ProberProofs Hostname HostnameProofs HostnameInv Resolver Provider ProviderSpec ProviderProofs ProviderListener ProviderConverge ProviderGoodbye Browser BrowserProofs BrowserInv NetProofs NetHop NetPair NetLag NetTwo NetMany.
Local Open Scope Z_scope.

Lemma rep_ignored now m w : browser_on_message now 0 m w = (w, []) -> forall n, rep n now m w = (w, []).
Proof. intros E. induction n as [|n IH]; cbn [rep]; [reflexivity|]. rewrite E, IH. reflexivity. Qed.

Lemma rep_type T now m : forall n w, type_is T w -> type_is T (fst (rep n now m w)).
Proof.
  induction n as [|n IH]; intros w H; cbn [rep fst]; [exact H|].
  pose proof (bom_type T now m w H) as H1. destruct (browser_on_message now 0 m w) as [w1 o1]. cbn [fst] in H1.
  specialize (IH w1 H1). destruct (rep n now m w1) as [w2 o2]. exact IH.
Qed.

Section DupMany.
Variable d : message -> nat.

Lemma bheard_type T now : forall es w, type_is T w -> type_is T (fst (bheard d now w es)).
Proof.
  induction es as [|e es IH]; intros w H; cbn [bheard]; [exact H|].
  destruct e as [m|m|ob sg p|tid ms|tid|rs]; try (apply IH; exact H).
  destruct (m_response m); [|apply IH; exact H].
  pose proof (rep_type T now m (S (d m)) w H) as H1. destruct (rep (S (d m)) now m w) as [w1 o1]. cbn [fst] in H1.
  specialize (IH w1 H1). destruct (bheard d now w1 es) as [w2 o2]. exact IH.
Qed.

Lemma script_ignored_d T T' now : Unrelated T T' -> bytes_eqb T browse_type = false ->
  forall L es, Script T' L es -> forall c b, b_type b = Some T -> bheard d now (mkWorld [c] [b] 0) es = (mkWorld [c] [b] 0, []).
Proof.
  intros [Hne Hend] Hbr L es S.
  induction S as [L|L e es Se Ses IH|p s t nm es G Ses IH|p s t nm es G Ses IH|p s t p' s' t' nm es G G' Ses IH]; intros c b Hty.
  - reflexivity.
  - destruct e as [m|m|ob sg pl|tid ms|tid|rs]; cbn [bheard]; try (apply IH; exact Hty).
    rewrite (Se m (or_introl eq_refl)). apply IH, Hty.
  - destruct G as (An & Hnm & _). unfold goodbye. cbn [bheard m_response].
    rewrite (rep_ignored now _ _ (other_type_ignored now _ _ _ T T' nm A0 P0 I0 c b (announces_ttl _ _ _ _ _ 0%N An) Hty Hbr Hne (Hend nm Hnm))).
    rewrite (IH c b Hty). reflexivity.
  - destruct G as (An & Hnm & _). unfold announcement. cbn [bheard m_response].
    rewrite (rep_ignored now _ _ (other_type_ignored now _ _ _ T T' nm A0 P0 I0 c b An Hty Hbr Hne (Hend nm Hnm))).
    rewrite (IH c b Hty). reflexivity.
  - destruct G' as (An & Hnm & _). unfold announcement. cbn [bheard m_response].
    rewrite (rep_ignored now _ _ (other_type_ignored now _ _ _ T T' nm A0 P0 I0 c b An Hty Hbr Hne (Hend nm Hnm))).
    rewrite (IH c b Hty). reflexivity.
Qed.

Lemma other_script_ignored_d T T' nowb L' es L w : Unrelated T T' -> bytes_eqb T browse_type = false ->
  Script T' L' es -> BI T L w -> type_is T w -> bheard d nowb w es = (w, []).
Proof.
  intros Un Hbr S B (b0 & Hb0 & Ht0).
  inversion B as [c0 b1 Ce Hty Hc Hsv|p s t nm c0 b1 G Hh Hty Hc Hsv]; subst; cbn [w_browsers nth_error] in Hb0; injection Hb0 as <-;
    apply (script_ignored_d T T' nowb Un Hbr L' es S c0 b1 Ht0).
Qed.

Definition bn_heard (nowb : Z) (es : list eff) (b : bnode) : bnode := mkBnode (bn_type b) (fst (bheard d nowb (bn_world b) es)).

Inductive netSd : (nat -> other) -> list bnode -> Prop :=
| nSd_init P bs : (forall j, fresh_other (P j)) -> Forall fresh_bnode bs -> netSd P bs
| nSd_act P bs k now nowb ev : netSd P bs -> one_provider (o_comp (P k)) ev -> ev_type_ok (o_type (P k)) ev ->
    netSd (upd P k (mkOther (o_type (P k)) (fst (comp_handle now (o_comp (P k)) ev)) (listen (o_link (P k)) (snd (comp_handle now (o_comp (P k)) ev)))))
         (map (bn_heard nowb (snd (comp_handle now (o_comp (P k)) ev))) bs).


Theorem every_browser_follows_its_provider_duplicated P bs :
  netSd P bs -> forall i b, In b bs -> follows P i b -> reports_served (bn_type b) (o_comp (P i)) (bn_world b).
Proof.
  intro R.
  assert (Inv : (forall j, other_inv (P j)) /\
                forall i b, In b bs -> follows P i b -> BI (bn_type b) (o_link (P i)) (bn_world b) /\ type_is (bn_type b) (bn_world b)).
  { induction R as [P bs Fr Fb|P bs k now nowb ev R [IO IB] One Ty].
    - split.
      + intro j. destruct (Fr j) as (l' & i' & Ec & El). unfold other_inv. rewrite Ec, El.
        split; [apply (lreach_inv _ _ (lr_init l' i'))|]. constructor; cbn [cp_prov no_prov pv_exists fresh_comp]; discriminate.
      + intros i b Hb _. destruct (Fr i) as (l' & i' & _ & El). rewrite El.
        rewrite (proj1 (Forall_forall _ _) Fb b Hb). split.
        * apply bi_none; try reflexivity. left. reflexivity.
        * eexists. split; reflexivity.
    - destruct (IO k) as [Ik Jk]. split.
      + intro j. unfold upd. destruct (Nat.eqb j k); [|apply IO]. unfold other_inv. cbn [o_comp o_link o_type].
        split; [apply comp_step_inv; assumption|apply (comp_step_T (o_type (P k)) now (o_comp (P k)) ev (o_link (P k)) Ik Jk One Ty)].
      + intros i b' Hb' F'. apply in_map_iff in Hb' as (b & <- & Hb). unfold bn_heard in *. cbn [bn_type bn_world] in *.
        assert (F : follows P i b).
        { eapply (follows_upd P k _ _ i (mkBnode (bn_type b) (bn_world b))). exact F'. }
        destruct (IB i b Hb F) as [B Tw]. destruct F as (Et & Un & HT & Hbr).
        unfold upd. destruct (Nat.eqb i k) eqn:E.
        * apply Nat.eqb_eq in E. subst i. cbn [o_link]. rewrite Et in *. split.
          -- apply (pair_step (bheard d) (bheard_app d) (bheard_silent d) (heard_goodbye_e d) (heard_fresh_e d) (heard_over_e d) (o_type (P k)) now nowb (o_comp (P k)) ev (o_link (P k)) (bn_world b) HT Hbr Ik Jk B One Ty).
          -- apply bheard_type, Tw.
        * apply Nat.eqb_neq in E.
          assert (Ek : bheard d nowb (bn_world b) (snd (comp_handle now (o_comp (P k)) ev)) = (bn_world b, [])).
          { assert (Uk : Unrelated (bn_type b) (o_type (P k))) by (apply Un; intro; apply E; congruence).
            apply (other_script_ignored_d (bn_type b) (o_type (P k)) nowb (o_link (P k)) _ (o_link (P i)) (bn_world b) Uk Hbr
                     (step_script (o_type (P k)) now (o_comp (P k)) ev (o_link (P k)) Ik Jk One Ty) B Tw). }
          rewrite Ek. cbn [fst]. split; assumption. }
  destruct Inv as [IO IB]. intros i b Hb F. destruct (IO i) as [Ii _].
  apply (BI_reports_served (bn_type b) (o_comp (P i)) (o_link (P i)) (bn_world b) Ii (proj1 (IB i b Hb F))).
Qed.

End DupMany.
