(* Properties_C13.v — a provider withdraws or replaces everything it stops serving. *)
From QV Require Import Base Fields SrcFacts Msg SrcDecisions Cache CacheSpec Sim Prober Hostname Provider ProviderSpec ProviderProofs ProviderListener ProviderReply.
From QV Require Import NetPair NetLag ProviderUniform.
Local Open Scope Z_scope.

(* Handler level (the run-level listener theorem follows below).  Proved: farewell() multicasts exactly the currently published PTR, SRV and TXT with TTL 0; a completed
   probe of an already confirmed provider says that goodbye BEFORE announcing the replacement; the SRV and TXT
   proposals of a new provider carry the cache-flush bit.  The listener statement (a passive RFC 6762 cache holds
   exactly the served records once activity has stopped, nothing after destruction; no change of name, type or SRV
   target without a goodbye) is proved below on the model and enforced on every run by the acceptor (codes 40, 41, 42)
   on the implementation's traces. *)
Theorem C13_farewell_withdraws_partial p :
  snd (farewell p) = [ESendAll (add_record (set_ttl 0 (pv_txt p)) (add_record (set_ttl 0 (pv_srv p))
                        (add_record (set_ttl 0 (pv_ptr p)) (set_response true default_message))))].
Proof. exact (farewell_withdraws p). Qed.
Print Assumptions C13_farewell_withdraws_partial.

Theorem C13_goodbye_before_replacement_partial name p :
  pv_confirmed p = true ->
  exists bye ann, snd (on_name_confirmed name p) = [ESendAll bye; ESendAll ann] /\
    m_records bye = [set_ttl 0 (pv_ptr p); set_ttl 0 (pv_srv p); set_ttl 0 (pv_txt p)] /\
    m_records ann = [set_target name (pv_ptrP p); set_name name (pv_srvP p); set_name name (pv_txtP p)].
Proof. exact (name_confirmed_withdraws_first name p). Qed.
Print Assumptions C13_goodbye_before_replacement_partial.

Theorem C13_unique_records_flush_partial : r_flush (pv_srvP prov_new) = true /\ r_flush (pv_txtP prov_new) = true.
Proof. split; reflexivity. Qed.
Print Assumptions C13_unique_records_flush_partial.

(* ---- run level: the passive listener ----
   [listen L es]: the listener's cache after hearing the multicast responses among the effects es, by the RFC 6762
   rules: a record with the cache-flush bit replaces every record of its name and type, any record replaces an equal one
   (Record::operator==), a TTL-0 record removes instead of adding.  (No expiry: the provider's TTLs are hours and the
   property speaks of the state once activity has stopped.)
   [lreach c L]: c is a state of the hostname + provider + prober composite reached from the start by ANY sequence of
   handler invocations at any instants - messages, any timer, update, destroy, creation of the provider (one provider
   object at a time) - and L the listener's cache after all the multicasts so far. *)

(* whenever the provider exists and is confirmed, the listener holds exactly its current PTR, SRV and TXT records (all with
   nonzero TTL); in particular every earlier name, type, target, port or attribute set has been withdrawn or replaced *)
Theorem C13_listener_holds_exactly_the_served_records c L :
  lreach c L -> pv_exists (cp_prov c) = true -> pv_confirmed (cp_prov c) = true ->
  L = [pv_ptr (cp_prov c); pv_srv (cp_prov c); pv_txt (cp_prov c)] /\
  r_ttl (pv_ptr (cp_prov c)) <> 0%N /\ r_ttl (pv_srv (cp_prov c)) <> 0%N /\ r_ttl (pv_txt (cp_prov c)) <> 0%N.
Proof.
  intros R E C. destruct (ci_served _ _ (lreach_inv c L R) E C) as (_ & (A1 & A2 & A3) & _ & _ & HL). auto.
Qed.
Print Assumptions C13_listener_holds_exactly_the_served_records.

(* and nothing once the provider has been destroyed (or before it has confirmed a name) *)
Theorem C13_listener_holds_nothing_otherwise c L :
  lreach c L -> pv_exists (cp_prov c) && pv_confirmed (cp_prov c) = false -> L = [].
Proof. intros R H. exact (ci_unserved _ _ (lreach_inv c L R) H). Qed.
Print Assumptions C13_listener_holds_nothing_otherwise.

(* non-vacuity: register, offer a service, rename it, destroy the provider *)
Example C13_nonvacuous :
  let h0 := fst (on_rebroadcast (mkHost [118; 109]%N [] [] [] false 1)) in
  let c0 := mkComp h0 no_prov None in
  let svc := fun n => mkService (Some [95; 116; 46]%N) (Some n) None 80 [] in
  let evs := [(2000, EvTimer T_REG); (2000, EvApi PNewProv); (2000, EvApi (PUpdate (svc [97]%N))); (4000, EvTimer T_PROBER);
              (5000, EvApi (PUpdate (svc [98]%N))); (7000, EvTimer T_PROBER)] in
  let run := fold_left (fun cl ne => (fst (comp_handle (fst ne) (fst cl) (snd ne)),
                                      listen (snd cl) (snd (comp_handle (fst ne) (fst cl) (snd ne))))) evs (c0, []) in
  map (fun r => (r_type r, bs_data (r_name r))) (snd run) =
    [(12%N, [95; 116; 46]%N); (33%N, [98; 46; 95; 116; 46]%N); (16%N, [98; 46; 95; 116; 46]%N)] /\
  pv_confirmed (cp_prov (fst run)) = true /\
  snd (let c := fst run in (c, listen (snd run) (snd (comp_handle 8000 c (EvApi PDestroy))))) = [].
Proof. vm_compute. repeat split. Qed.

(* what a provider answers to a question is - apart from the service-type enumeration record - held by every passive
   listener of its multicast announcements (the acceptor's rule 43, proved of the model over all histories) *)
Theorem C13_replies_are_announced c L m m' : lreach c L -> pv_exists (cp_prov c) = true ->
  In (ESend m') (prov_on_message (cp_prov c) m) ->
  forall r, In r (m_records m') -> r = pv_browse (cp_prov c) \/ In r L.
Proof. exact (replies_are_announced c L m m'). Qed.
Print Assumptions C13_replies_are_announced.

(* A provider never mixes a withdrawal with an announcement (ProviderUniform.v): in every state satisfying the listener
   invariant (CInv, which holds in every reachable state: lreach_inv) and serving type T (TInv, preserved by every step whose
   updates name type T), every multicast response a step of the composite emits names its records either all with TTL 0
   or all with a live TTL.  A listener is never left with part of a service.  Acceptor code 44 demands the same of every
   implementation trace.  PARTIAL in that the history's updates all name one service type T. *)
Theorem C13_multicasts_never_mix_goodbye_and_announcement_partial T now c ev L m :
  CInv c L -> TInv T c -> one_provider c ev -> ev_type_ok T ev ->
  In (ESendAll m) (snd (comp_handle now c ev)) -> m_response m = true -> uniform_ttl (m_records m) = true.
Proof. exact (multicasts_are_uniform T now c ev L m). Qed.
Print Assumptions C13_multicasts_never_mix_goodbye_and_announcement_partial.

(* non-vacuity: the step that completes the probe emits a multicast response *)
Example C13_uniform_nonvacuous :
  let h0 := fst (on_rebroadcast (mkHost [118; 109]%N [] [] [] false 1)) in
  let svc := mkService (Some [95; 116; 46]%N) (Some [97]%N) None 80 [] in
  let evs := [(2000, EvTimer T_REG); (2000, EvApi PNewProv); (2000, EvApi (PUpdate svc))] in
  let c := fold_left (fun c ne => fst (comp_handle (fst ne) c (snd ne))) evs (mkComp h0 no_prov None) in
  existsb (fun e => match e with ESendAll m => m_response m && (length (m_records m) =? 3)%nat | _ => false end)
          (snd (comp_handle 4000 c (EvTimer T_PROBER))) = true.
Proof. vm_compute. reflexivity. Qed.

(* ... and over every run: in every state the composite reaches by ANY sequence of handler invocations (at any instants)
   whose updates name type T, every multicast response of every further step is uniform. *)
Theorem C13_multicasts_are_uniform_in_every_run_partial T c L w now ev m :
  T <> [] -> bytes_eqb T browse_type = false -> preach bhear T c L w -> one_provider c ev -> ev_type_ok T ev ->
  In (ESendAll m) (snd (comp_handle now c ev)) -> m_response m = true -> uniform_ttl (m_records m) = true.
Proof. exact (multicasts_are_uniform_in_every_run T c L w now ev m). Qed.
Print Assumptions C13_multicasts_are_uniform_in_every_run_partial.
