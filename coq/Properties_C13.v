(* Properties_C13.v — a provider withdraws or replaces everything it stops serving. *)
From QV Require Import Base Fields SrcFacts Msg SrcDecisions Sim Prober Hostname Provider ProviderSpec ProviderProofs.
Local Open Scope Z_scope.

(* PARTIAL.  Proved: farewell() multicasts exactly the currently published PTR, SRV and TXT with TTL 0; a completed
   probe of an already confirmed provider says that goodbye BEFORE announcing the replacement; the SRV and TXT
   proposals of a new provider carry the cache-flush bit.  The listener statement (a passive RFC 6762 cache holds
   exactly the served records once activity has stopped, nothing after destruction; no change of name, type or SRV
   target without a goodbye) is enforced on every run by the acceptor (codes 40, 41, 42); its proof is not yet written. *)
Theorem C13_farewell_withdraws_partial p :
  snd (farewell p) = [ESendAll (add_record (set_ttl 0 (pv_txt p)) (add_record (set_ttl 0 (pv_srv p))
                        (add_record (set_ttl 0 (pv_ptr p)) (set_response true default_message))))].
Proof. exact (farewell_withdraws p). Qed.
Print Assumptions C13_farewell_withdraws_partial.

Theorem C13_goodbye_before_replacement_partial name p :
  pv_confirmed p = true ->
  exists bye ann, snd (on_name_confirmed name p) = [ESendAll bye; ESendAll ann] /\
    m_records bye = [set_ttl 0 (pv_ptr p); set_ttl 0 (pv_srv p); set_ttl 0 (pv_txt p)] /\
    m_records ann = [set_target name (pv_ptrP p); set_name name (pv_srvP p); set_name name (pv_txtP p)].
Proof. exact (name_confirmed_withdraws_first name p). Qed.
Print Assumptions C13_goodbye_before_replacement_partial.

Theorem C13_unique_records_flush_partial : r_flush (pv_srvP prov_new) = true /\ r_flush (pv_txtP prov_new) = true.
Proof. split; reflexivity. Qed.
Print Assumptions C13_unique_records_flush_partial.
