(* ResolverProofs.v — C16 (partial): what the resolver model reports and asks. *)
From QV Require Import Base Fields SrcFacts Msg SrcDecisions Cache CacheSpec CacheProofs Sim Prober Resolver.
From Coq Require Import ZifyBool ZifyNat ZifyN.
Local Open Scope Z_scope.

Lemma resolver_filter_spec r name :
  resolver_filter r name = bs_eqb (r_name r) name && ((r_type r =? 1)%N || (r_type r =? 28)%N).
Proof. reflexivity. Qed.

Lemma fold_add_records rs : forall m, m_records (fold_left (fun m r => add_record r m) rs m) = m_records m ++ rs
                                      /\ m_queries (fold_left (fun m r => add_record r m) rs m) = m_queries m
                                      /\ m_response (fold_left (fun m r => add_record r m) rs m) = m_response m.
Proof.
  induction rs as [|r rs IH]; intro m; cbn [fold_left]; [rewrite app_nil_r; auto|].
  destruct (IH (add_record r m)) as (A & B & C). rewrite A, B, C. cbn. rewrite <- app_assoc. auto.
Qed.

Lemma res_query_shape s :
  m_response (res_query s) = false /\
  m_queries (res_query s) = [mkQuery (rs_name s) 1 false; mkQuery (rs_name s) 28 false] /\
  m_records (res_query s) = lookup (rs_name s) 1 (rs_cache s) ++ lookup (rs_name s) 28 (rs_cache s).
Proof. unfold res_query. destruct (fold_add_records (existing s) (add_query (mkQuery (rs_name s) T_AAAA false) (add_query (mkQuery (rs_name s) T_A false) default_message))) as (A & B & C). rewrite A, B, C. cbn. auto. Qed.

Lemma existsb_app_false {A} (f : A -> bool) l x : existsb f (l ++ [x]) = false -> existsb f l = false.
Proof. rewrite existsb_app. intro H. apply orb_false_iff in H. tauto. Qed.

Lemma res_records_name now : forall rs s, rs_name (fst (res_records now rs s)) = rs_name s.
Proof.
  induction rs as [|r rs IH]; intro s; cbn [res_records]; [reflexivity|].
  destruct (resolver_filter r (rs_name s)); [|apply IH].
  destruct (cache_add_eff now (rs_jitter s) r (rs_cache s)) as [[c' sg] ce].
  match goal with |- context [res_records now rs ?s1] => specialize (IH s1); destruct (res_records now rs s1) as [s2 e2] end.
  cbn [fst] in *. exact IH.
Qed.

Lemma cache_add_eff_no_sig now j r c e : In e (snd (cache_add_eff now j r c)) -> exists tid ms, e = EStart tid ms.
Proof.
  unfold cache_add_eff. destruct (add now j r c) as [c' sg]. cbn [snd].
  destruct (add_rearms now j r c); [|intros []]. destruct (c_timer c'); [|intros []]. intros [<-|[]]. eauto.
Qed.

(* every report caused by a response comes from an A/AAAA record for exactly the name, with nonzero TTL, whose
   address had not been reported before *)
Lemma res_records_sound now : forall rs s a,
  In (ESig OBJ SIG_resolved (PAddr a)) (snd (res_records now rs s)) ->
  exists r, In r rs /\ resolver_filter r (rs_name s) = true /\ r_ttl r <> 0%N /\ r_addr r = a /\
            existsb (addr_eqb a) (rs_addrs s) = false.
Proof.
  induction rs as [|r rs IH]; intros s a; cbn [res_records]; [intros []|].
  destruct (resolver_filter r (rs_name s)) eqn:F.
  - pose proof (cache_add_eff_no_sig now (rs_jitter s) r (rs_cache s)) as NS.
    destruct (cache_add_eff now (rs_jitter s) r (rs_cache s)) as [[c' sg] ce]. cbn [snd] in NS.
    unfold resolver_report in *.
    set (report := negb (r_ttl r =? 0)%N && negb (existsb (addr_eqb (r_addr r)) (rs_addrs s))).
    match goal with |- context [res_records now rs ?s1] => pose proof (IH s1 a) as IH1; destruct (res_records now rs s1) as [s2 e2] eqn:RR end.
    cbn [snd rs_name rs_addrs] in *. intro H. apply in_app_iff in H as [H|H].
    + destruct (NS _ H) as (tid & ms & E). discriminate.
    + apply in_app_iff in H as [H|H].
      * destruct report eqn:Rp; [|destruct H]. destruct H as [H|[]]. injection H as <-.
        unfold report in Rp. apply andb_true_iff in Rp as [R1 R2]. apply negb_true_iff in R1, R2.
        exists r. split; [left; reflexivity|]. split; [exact F|].
        split; [intro Z0; rewrite Z0 in R1; discriminate|]. split; [reflexivity|exact R2].
      * destruct (IH1 H) as (r' & I1 & I2 & I3 & I4 & I5). exists r'.
        split; [right; exact I1|]. split; [exact I2|]. split; [exact I3|]. split; [exact I4|].
        destruct report; [apply existsb_app_false in I5|]; exact I5.
  - intro H. destruct (IH s a H) as (r' & I1 & I2 & I3 & I4 & I5). exists r'.
    split; [right; exact I1|]. auto.
Qed.

(* received address records of the host are passed to the cache: the cache content after a response is the fold of
   Cache::addRecord over the filtered records *)
Lemma res_records_cache now : forall rs s,
  rs_cache (fst (res_records now rs s)) =
  fold_left (fun c r => fst (add now (rs_jitter s) r c)) (filter (fun r => resolver_filter r (rs_name s)) rs) (rs_cache s).
Proof.
  induction rs as [|r rs IH]; intro s; cbn [res_records filter]; [reflexivity|].
  destruct (resolver_filter r (rs_name s)); [|apply IH]. cbn [fold_left].
  unfold cache_add_eff. destruct (add now (rs_jitter s) r (rs_cache s)) as [c' sg] eqn:A.
  match goal with |- context [res_records now rs ?s1] => specialize (IH s1); destruct (res_records now rs s1) as [s2 e2] end.
  cbn [fst rs_cache rs_jitter rs_name] in *. exact IH.
Qed.
