(* SimProofs.v — generic facts about the virtual-time kernel: whatever every handler invocation preserves, every
   kernel step (delivery, API call, clock advance with any number of timer firings, late firing) preserves. *)
From QV Require Import Base Sim.
Local Open Scope Z_scope.

Section SimInv.
  Variables (St api : Type).
  Variable handle : Z -> St -> event api -> St * list eff.
  Variable P : St -> Prop.
  Hypothesis handle_P : forall now st ev, P st -> P (fst (handle now st ev)).

  Lemma dispatch_P (s : sim St) ev : P (s_st s) -> P (s_st (fst (dispatch St api handle s ev))).
  Proof.
    intro H. unfold dispatch. pose proof (handle_P (s_now s) (s_st s) ev H) as H'.
    destruct (handle (s_now s) (s_st s) ev) as [st' es].
    destruct (apply_effs (s_now s) (s_tm s) (s_seq s) es) as [[tm' sq'] o]. exact H'.
  Qed.

  Lemma fire_due_P : forall fuel t strict late (s : sim St),
    P (s_st s) -> P (s_st (fst (fire_due St api handle fuel t strict late s))).
  Proof.
    induction fuel as [|f IH]; intros t strict late s H; cbn [fire_due]; [exact H|].
    destruct (tm_next (s_tm s) t strict None) as [[[tid d] sq]|]; [|exact H].
    match goal with |- context [dispatch St api handle ?s1 ?ev] =>
      pose proof (dispatch_P s1 ev H) as D; destruct (dispatch St api handle s1 ev) as [s2 o1] end.
    specialize (IH t strict late s2 D). destruct (fire_due St api handle f t strict late s2) as [s3 o2]. exact IH.
  Qed.

  Lemma step_P fuel (s : sim St) (o : aop api) : P (s_st s) -> P (s_st (fst (step St api handle fuel s o))).
  Proof.
    intro H. destruct o as [m|t|t|t|a]; cbn [step].
    - apply dispatch_P, H.
    - destruct (t <? s_now s); [exact H|]. pose proof (fire_due_P fuel t false false s H) as F.
      destruct (fire_due St api handle fuel t false false s) as [s' o]. exact F.
    - destruct (t <? s_now s); [exact H|]. pose proof (fire_due_P fuel t true false s H) as F.
      destruct (fire_due St api handle fuel t true false s) as [s' o]. exact F.
    - destruct (t <? s_now s); [exact H|]. apply fire_due_P. exact H.
    - apply dispatch_P, H.
  Qed.

  Definition state_after (fuel : nat) (s : sim St) (ops : list (aop api)) : sim St :=
    fold_left (fun s o => fst (step St api handle fuel s o)) ops s.

  Theorem run_P fuel ops : forall s, P (s_st s) -> P (s_st (state_after fuel s ops)).
  Proof.
    unfold state_after. induction ops as [|o ops IH]; intros s H; cbn [fold_left]; [exact H|]. apply IH, step_P, H.
  Qed.
End SimInv.
