(* SimProofs.v — generic facts about the virtual-time kernel: whatever every handler invocation preserves, every
   kernel step (delivery, API call, clock advance with any number of timer firings, late firing) preserves. *)
From QV Require Import Base Sim.
Local Open Scope Z_scope.

Section SimInv.
  Variables (St api : Type).
  Variable handle : Z -> St -> event api -> St * list eff.
  Variable P : St -> Prop.
  Hypothesis handle_P : forall now st ev, P st -> P (fst (handle now st ev)).

  Lemma dispatch_P (s : sim St) ev : P (s_st s) -> P (s_st (fst (dispatch St api handle s ev))).
  Proof.
    intro H. unfold dispatch. pose proof (handle_P (s_now s) (s_st s) ev H) as H'.
    destruct (handle (s_now s) (s_st s) ev) as [st' es].
    destruct (apply_effs (s_now s) (s_tm s) (s_seq s) es) as [[tm' sq'] o]. exact H'.
  Qed.

  Lemma fire_due_P : forall fuel t strict late (s : sim St),
    P (s_st s) -> P (s_st (fst (fire_due St api handle fuel t strict late s))).
  Proof.
    induction fuel as [|f IH]; intros t strict late s H; cbn [fire_due]; [exact H|].
    destruct (tm_next (s_tm s) t strict None) as [[[tid d] sq]|]; [|exact H].
    match goal with |- context [dispatch St api handle ?s1 ?ev] =>
      pose proof (dispatch_P s1 ev H) as D; destruct (dispatch St api handle s1 ev) as [s2 o1] end.
    specialize (IH t strict late s2 D). destruct (fire_due St api handle f t strict late s2) as [s3 o2]. exact IH.
  Qed.

  Lemma step_P fuel (s : sim St) (o : aop api) : P (s_st s) -> P (s_st (fst (step St api handle fuel s o))).
  Proof.
    intro H. destruct o as [m|t|t|t|a]; cbn [step].
    - apply dispatch_P, H.
    - destruct (t <? s_now s); [exact H|]. pose proof (fire_due_P fuel t false false s H) as F.
      destruct (fire_due St api handle fuel t false false s) as [s' o]. exact F.
    - destruct (t <? s_now s); [exact H|]. pose proof (fire_due_P fuel t true false s H) as F.
      destruct (fire_due St api handle fuel t true false s) as [s' o]. exact F.
    - destruct (t <? s_now s); [exact H|]. apply fire_due_P. exact H.
    - apply dispatch_P, H.
  Qed.

  Definition state_after (fuel : nat) (s : sim St) (ops : list (aop api)) : sim St :=
    fold_left (fun s o => fst (step St api handle fuel s o)) ops s.

  Theorem run_P fuel ops : forall s, P (s_st s) -> P (s_st (state_after fuel s ops)).
  Proof.
    unfold state_after. induction ops as [|o ops IH]; intros s H; cbn [fold_left]; [exact H|]. apply IH, step_P, H.
  Qed.
End SimInv.

(* ---- every kernel run is a sequence of handler invocations; its signal outputs are those invocations' signals ---- *)
Definition eff_sigs (es : list eff) : list eff :=
  filter (fun e => match e with ESig _ _ _ => true | _ => false end) es.
Definition out_sigs (os : list out) : list eff :=
  flat_map (fun o => match o with OSignal _ ob sg p => [ESig ob sg p] | _ => [] end) os.

Lemma eff_sigs_app a b : eff_sigs (a ++ b) = eff_sigs a ++ eff_sigs b.
Proof. unfold eff_sigs. apply filter_app. Qed.
Lemma out_sigs_app a b : out_sigs (a ++ b) = out_sigs a ++ out_sigs b.
Proof. unfold out_sigs. apply flat_map_app. Qed.

Lemma apply_effs_sigs now : forall es tm sq, out_sigs (snd (apply_effs now tm sq es)) = eff_sigs es.
Proof.
  unfold out_sigs, eff_sigs.
  induction es as [|e es IH]; intros tm sq; cbn [apply_effs]; [reflexivity|].
  destruct e as [m|m|ob sg p|tid ms|tid|rs]; cbn [filter].
  - specialize (IH tm sq). destruct (apply_effs now tm sq es) as [[tm' sq'] o]. cbn [snd flat_map app] in *. exact IH.
  - specialize (IH tm sq). destruct (apply_effs now tm sq es) as [[tm' sq'] o]. cbn [snd flat_map app] in *. exact IH.
  - specialize (IH tm sq). destruct (apply_effs now tm sq es) as [[tm' sq'] o]. cbn [snd flat_map app] in *. rewrite IH. reflexivity.
  - apply IH.
  - apply IH.
  - specialize (IH tm sq). destruct (apply_effs now tm sq es) as [[tm' sq'] o]. cbn [snd flat_map app] in *. exact IH.
Qed.

Section SimLife.
  Variables (St api : Type).
  Variable handle : Z -> St -> event api -> St * list eff.

  Fixpoint life (evs : list (Z * event api)) (st : St) : St * list eff :=
    match evs with
    | [] => (st, [])
    | (now, ev) :: evs' =>
        let '(st1, e1) := handle now st ev in
        let '(st2, e2) := life evs' st1 in (st2, e1 ++ e2)
    end.

  Lemma life_app a b st :
    life (a ++ b) st = let '(st1, e1) := life a st in let '(st2, e2) := life b st1 in (st2, e1 ++ e2).
  Proof.
    revert st. induction a as [|[now ev] a IH]; intro st; cbn [app life].
    - destruct (life b st) as [st2 e2]. reflexivity.
    - destruct (handle now st ev) as [st1 e1]. rewrite IH. destruct (life a st1) as [st2 e2].
      destruct (life b st2) as [st3 e3]. rewrite app_assoc. reflexivity.
  Qed.

  (* the simulation relation: same state, same signals *)
  Definition covers (evs : list (Z * event api)) (st : St) (s' : sim St) (os : list out) : Prop :=
    fst (life evs st) = s_st s' /\ eff_sigs (snd (life evs st)) = out_sigs os.

  Lemma dispatch_covers (s : sim St) ev :
    covers [(s_now s, ev)] (s_st s) (fst (dispatch St api handle s ev)) (snd (dispatch St api handle s ev)).
  Proof.
    unfold covers, dispatch. cbn [life]. destruct (handle (s_now s) (s_st s) ev) as [st' es].
    pose proof (apply_effs_sigs (s_now s) es (s_tm s) (s_seq s)) as A.
    destruct (apply_effs (s_now s) (s_tm s) (s_seq s) es) as [[tm' sq'] o]. cbn [fst snd] in *.
    rewrite app_nil_r. split; [reflexivity|symmetry; exact A].
  Qed.

  Lemma covers_trans e1 e2 st (s1 : sim St) o1 (s2 : sim St) o2 :
    covers e1 st s1 o1 -> covers e2 (s_st s1) s2 o2 -> covers (e1 ++ e2) st s2 (o1 ++ o2).
  Proof.
    unfold covers. intros [A1 A2] [B1 B2]. rewrite life_app. destruct (life e1 st) as [st1 x1]. cbn [fst snd] in *. subst st1.
    destruct (life e2 (s_st s1)) as [st2 x2]. cbn [fst snd] in *. split; [exact B1|].
    rewrite eff_sigs_app, out_sigs_app, A2, B2. reflexivity.
  Qed.

  Lemma fire_due_covers : forall fuel t strict late (s : sim St),
    exists evs, covers evs (s_st s) (fst (fire_due St api handle fuel t strict late s)) (snd (fire_due St api handle fuel t strict late s)).
  Proof.
    induction fuel as [|f IH]; intros t strict late s; cbn [fire_due].
    - exists []. split; reflexivity.
    - destruct (tm_next (s_tm s) t strict None) as [[[tid d] sq]|]; [|exists []; split; reflexivity].
      match goal with |- context [dispatch St api handle ?s1 ?ev] =>
        pose proof (dispatch_covers s1 ev) as D; destruct (dispatch St api handle s1 ev) as [s2 o1] end.
      cbn [s_st s_now fst snd] in D.
      destruct (IH t strict late s2) as [evs C]. destruct (fire_due St api handle f t strict late s2) as [s3 o2]. cbn [fst snd] in *.
      eexists. eapply covers_trans; [exact D|exact C].
  Qed.

  Lemma step_covers fuel (s : sim St) (o : aop api) :
    exists evs, covers evs (s_st s) (fst (step St api handle fuel s o)) (snd (step St api handle fuel s o)).
  Proof.
    destruct o as [m|t|t|t|a]; cbn [step].
    - eexists. apply dispatch_covers.
    - destruct (t <? s_now s); [exists []; split; reflexivity|].
      destruct (fire_due_covers fuel t false false s) as [evs C].
      destruct (fire_due St api handle fuel t false false s) as [s' o]. exists evs. exact C.
    - destruct (t <? s_now s); [exists []; split; reflexivity|].
      destruct (fire_due_covers fuel t true false s) as [evs C].
      destruct (fire_due St api handle fuel t true false s) as [s' o]. exists evs. exact C.
    - destruct (t <? s_now s); [exists []; split; reflexivity|].
      destruct (fire_due_covers fuel t false true (set_now St t s)) as [evs C]. exists evs. exact C.
    - eexists. apply dispatch_covers.
  Qed.

  (* all outputs of a script, without the polls the harness interleaves *)
  Fixpoint run_outs (fuel : nat) (s : sim St) (ops : list (aop api)) : sim St * list out :=
    match ops with
    | [] => (s, [])
    | o :: ops' => let '(s1, o1) := step St api handle fuel s o in
                   let '(s2, o2) := run_outs fuel s1 ops' in (s2, o1 ++ o2)
    end.

  Theorem run_covers fuel : forall ops (s : sim St),
    exists evs, covers evs (s_st s) (fst (run_outs fuel s ops)) (snd (run_outs fuel s ops)).
  Proof.
    induction ops as [|o ops IH]; intro s; cbn [run_outs]; [exists []; split; reflexivity|].
    destruct (step_covers fuel s o) as [e1 C1]. destruct (step St api handle fuel s o) as [s1 o1]. cbn [fst snd] in C1.
    destruct (IH s1) as [e2 C2]. destruct (run_outs fuel s1 ops) as [s2 o2]. cbn [fst snd] in *.
    eexists. eapply covers_trans; eauto.
  Qed.
End SimLife.

(* ---- the kernel's transitions, abstractly, with a ghost: the clock never goes back, a timer fires at or after its
   deadline (and is removed from the table before its handler runs), anything else may happen at any instant ---- *)
Section SimReach.
  Variables (St api G : Type).
  Variable handle : Z -> St -> event api -> St * list eff.
  Variable gstep : Z -> St -> event api -> G -> G.
  Variables (s0 : sim St) (g0 : G).

  Inductive kreach : sim St -> G -> Prop :=
  | kr_init : kreach s0 g0
  | kr_tick s g t : kreach s g -> s_now s <= t -> kreach (mkSim t (s_tm s) (s_seq s) (s_st s)) g
  | kr_event s g ev : kreach s g -> match ev with EvTimer _ => False | _ => True end ->
      kreach (fst (dispatch St api handle s ev)) (gstep (s_now s) (s_st s) ev g)
  | kr_timer s g tid d sq : kreach s g -> In (tid, d, sq) (s_tm s) -> d <= s_now s ->
      kreach (fst (dispatch St api handle (mkSim (s_now s) (tm_remove tid (s_tm s)) (s_seq s) (s_st s)) (EvTimer tid)))
             (gstep (s_now s) (s_st s) (EvTimer tid) g).

  Definition kreachable (s : sim St) : Prop := exists g, kreach s g.

  Lemma tm_next_due : forall tm t strict best x,
    tm_next tm t strict best = Some x -> best = Some x \/ (In x tm /\ snd (fst x) <= t).
  Proof.
    induction tm as [|[[i d] sq] tm IH]; intros t strict best x H; cbn [tm_next] in H; [left; exact H|].
    apply IH in H as [H|[H1 H2]]; [|right; split; [right; exact H1|exact H2]].
    destruct ((if strict then d <? t else d <=? t) &&
              match best with None => true | Some (_, d0, s0) => (d <? d0) || ((d =? d0) && (sq <? s0)%N) end) eqn:E;
      [|left; exact H].
    injection H as <-. right. split; [left; reflexivity|]. cbn [fst snd].
    apply andb_true_iff in E as [E _]. destruct strict; lia.
  Qed.

  Lemma dispatch_now (s : sim St) ev : s_now (fst (dispatch St api handle s ev)) = s_now s.
  Proof.
    unfold dispatch. destruct (handle (s_now s) (s_st s) ev) as [st' es].
    destruct (apply_effs (s_now s) (s_tm s) (s_seq s) es) as [[tm' sq'] o]. reflexivity.
  Qed.

  Lemma fire_due_kreach : forall fuel t strict late s,
    (late = true -> t <= s_now s) -> kreachable s ->
    kreachable (fst (fire_due St api handle fuel t strict late s)).
  Proof.
    induction fuel as [|f IH]; intros t strict late s Hl R; cbn [fire_due]; [exact R|].
    destruct (tm_next (s_tm s) t strict None) as [[[tid d] sq]|] eqn:E; [|exact R].
    apply tm_next_due in E as [E|[Hin Hd]]; [discriminate|]. cbn [fst snd] in Hd.
    set (now' := if late then s_now s else Z.max (s_now s) d).
    assert (Hn : s_now s <= now') by (unfold now'; destruct late; lia).
    assert (Hd' : d <= now') by (unfold now'; destruct late; [specialize (Hl eq_refl)|]; lia).
    destruct R as [g R].
    pose proof (kr_timer _ _ tid d sq (kr_tick _ _ now' R Hn) Hin Hd') as R2. cbn [s_now s_tm s_seq s_st] in R2.
    set (s1 := mkSim now' (tm_remove tid (s_tm s)) (s_seq s) (s_st s)) in *.
    pose proof (dispatch_now s1 (EvTimer tid)) as N2.
    destruct (dispatch St api handle s1 (EvTimer tid)) as [s2 o1]. cbn [fst] in *.
    specialize (IH t strict late s2 ltac:(intro L; rewrite N2; unfold s1, now'; cbn [s_now]; rewrite L; apply Hl, L) (ex_intro _ _ R2)).
    destruct (fire_due St api handle f t strict late s2) as [s3 o2]. exact IH.
  Qed.

  Lemma step_kreach fuel (s : sim St) (o : aop api) : kreachable s -> kreachable (fst (step St api handle fuel s o)).
  Proof.
    intros R. destruct o as [m|t|t|t|a]; cbn [step].
    - destruct R as [g R]. eexists. exact (kr_event _ _ (EvMsg m) R I).
    - destruct (t <? s_now s); [exact R|].
      pose proof (fire_due_kreach fuel t false false s ltac:(discriminate) R) as F.
      destruct (fire_due St api handle fuel t false false s) as [s' o]. cbn [fst] in *.
      destruct F as [g F]. exists g. apply (kr_tick _ _ _ F). lia.
    - destruct (t <? s_now s); [exact R|].
      pose proof (fire_due_kreach fuel t true false s ltac:(discriminate) R) as F.
      destruct (fire_due St api handle fuel t true false s) as [s' o]. cbn [fst] in *.
      destruct F as [g F]. exists g. apply (kr_tick _ _ _ F). lia.
    - destruct (t <? s_now s); [exact R|].
      apply fire_due_kreach; [intros _; cbn; lia|]. destruct R as [g R]. exists g. apply (kr_tick _ _ _ R). lia.
    - destruct R as [g R]. eexists. exact (kr_event _ _ (EvApi a) R I).
  Qed.

  Lemma run_kreach_from fuel ops : forall s, kreachable s -> kreachable (state_after St api handle fuel s ops).
  Proof.
    unfold state_after. induction ops as [|o ops IH]; intros s R; cbn [fold_left]; [exact R|]. apply IH, step_kreach, R.
  Qed.
  Theorem run_kreach fuel ops : kreachable (state_after St api handle fuel s0 ops).
  Proof. apply run_kreach_from. exists g0. constructor. Qed.
End SimReach.
