(* ProberProofs.v — C07: every run of the prober model is accepted by the C07 acceptor. *)
From QV Require Import Base Fields SrcFacts Msg SrcDecisions Sim Prober CacheProofs.
From Coq Require Import ZifyBool ZifyNat ZifyN.
Local Open Scope Z_scope.

(* ---- ties to prober.cpp / dns.h ---- *)
Lemma probe_wait_ok : 2000 <= probe_wait_ms.
Proof. vm_compute. discriminate. Qed.
Lemma any_is_255 : T_ANY = 255%N.
Proof. reflexivity. Qed.
Lemma prober_conflict_spec r p : prober_conflict r p = bs_eqb (r_name r) (r_name p) && (r_type r =? r_type p)%N.
Proof. reflexivity. Qed.

Lemma bs_eqb_refl a : bs_eqb a a = true.
Proof. unfold bs_eqb. apply bytes_eqb_refl. Qed.

Section Coupling.
  Variable rec0 : record.
  Variables base tail : bytes.

  Notation handle := prober_handle.
  Notation psim := (@sim prober).

  Definition Coupled (s : psim) (q : pmon) : Prop :=
    let p := s_st s in
    pm_now q = s_now s /\ pm_done q = pb_confirmed p /\ pm_probes q = pb_suffix p /\
    r_name (pb_proposed p) = Some (candidate base tail (pb_suffix p)) /\ r_type (pb_proposed p) = r_type rec0 /\
    pb_base p = base /\ pb_tail p = tail /\
    if pb_confirmed p then s_tm s = []
    else exists d sq, s_tm s = [(T_PROBER, d, sq)] /\ pm_last q = Some (candidate base tail (pb_suffix p), d - probe_wait_ms)
                      /\ pm_disturbed q = false /\ d - probe_wait_ms <= s_now s.

  (* one assertRecord seen through the kernel and the acceptor *)
  Lemma assert_ok now tm sq p q :
    pb_base p = base -> pb_tail p = tail -> r_type (pb_proposed p) = r_type rec0 ->
    pm_done q = false -> (pm_probes q + 1)%N = pb_suffix p ->
    (tm = [] \/ exists d s0, tm = [(T_PROBER, d, s0)])%N ->
    let '(p1, es) := assert_record p in
    let '(tm1, sq1, o) := apply_effs now tm sq es in
    exists m, o = [OSendAll now m] /\ tm1 = [(T_PROBER, now + probe_wait_ms, (sq + 1)%N)] /\
      pb_suffix p1 = pb_suffix p /\ pb_confirmed p1 = pb_confirmed p /\ pb_base p1 = base /\ pb_tail p1 = tail /\
      r_name (pb_proposed p1) = Some (candidate base tail (pb_suffix p)) /\ r_type (pb_proposed p1) = r_type rec0 /\
      pmon_out rec0 base tail q (OSendAll now m)
      = inl (mkPmon (pb_suffix p) (Some (candidate base tail (pb_suffix p), now)) false false (pm_now q)).
  Proof.
    intros Hb Ht Hty Hd Hk Htm. unfold assert_record. cbn [apply_effs].
    assert (tm_remove T_PROBER (tm_remove T_PROBER tm) = []) as ->.
    { destruct Htm as [->|[d [s0 ->]]]; reflexivity. }
    eexists. split; [reflexivity|]. cbn [app pb_suffix pb_confirmed pb_base pb_tail pb_proposed].
    split; [reflexivity|]. split; [reflexivity|]. split; [reflexivity|]. split; [exact Hb|]. split; [exact Ht|].
    split; [rewrite Hb, Ht; reflexivity|]. split; [exact Hty|].
    cbn [pmon_out]. rewrite Hd, Hk, Hb, Ht. unfold is_probe_for.
    cbn [add_record add_query default_message m_response m_queries m_records app negb andb q_name q_type].
    change (r_name (set_name (Some (candidate base tail (pb_suffix p))) (pb_proposed p))) with (Some (candidate base tail (pb_suffix p))).
    change (r_type (set_name (Some (candidate base tail (pb_suffix p))) (pb_proposed p))) with (r_type (pb_proposed p)).
    rewrite !bs_eqb_refl, any_is_255, N.eqb_refl, Hty, N.eqb_refl. reflexivity.
  Qed.

  Lemma apply_effs_app now : forall e1 e2 tm sq,
    apply_effs now tm sq (e1 ++ e2) =
    let '(tm1, sq1, o1) := apply_effs now tm sq e1 in
    let '(tm2, sq2, o2) := apply_effs now tm1 sq1 e2 in (tm2, sq2, o1 ++ o2).
  Proof.
    induction e1 as [|e e1 IH]; intros e2 tm sq; cbn [app apply_effs].
    - destruct (apply_effs now tm sq e2) as [[a b] c]. reflexivity.
    - destruct e; try (rewrite IH; destruct (apply_effs now tm sq e1) as [[tm1 sq1] o1];
                       destruct (apply_effs now tm1 sq1 e2) as [[tm2 sq2] o2]; reflexivity);
        rewrite IH; reflexivity.
  Qed.

  Lemma on_records_ok now : forall rs tm sq p q,
    Coupled (mkSim now tm sq p) q -> pb_confirmed p = false ->
    let '(p', es) := on_records rs p in
    let '(tm', sq', o) := apply_effs now tm sq es in
    exists q', pmon_records rec0 base tail q rs o = inl q' /\ Coupled (mkSim now tm' sq' p') q' /\ pb_confirmed p' = false.
  Proof.
    induction rs as [|r rs IH]; intros tm sq p q C Hc.
    - cbn. exists q. auto.
    - cbn [on_records pmon_records].
      destruct C as (C1 & C2 & C3 & C4 & C5 & C6 & C7 & C8). cbn [s_st s_now s_tm] in *. rewrite Hc in C8.
      destruct C8 as (d & s0 & C8 & C9 & C10 & C11).
      rewrite prober_conflict_spec, C4, C5, C3.
      destruct (bs_eqb (r_name r) (Some (candidate base tail (pb_suffix p))) && (r_type r =? r_type rec0)%N) eqn:E.
      + set (pk := mkProber (pb_base p) (pb_tail p) (pb_proposed p) (pb_suffix p + 1) (pb_confirmed p)).
        pose proof (assert_ok now tm sq pk (mkPmon (pm_probes q) (pm_last q) true (pm_done q) (pm_now q))) as A.
        cbn [pb_base pb_tail pb_proposed pb_suffix pm_done pm_probes pk] in A.
        specialize (A C6 C7 C5 ltac:(congruence) ltac:(rewrite C3; reflexivity) ltac:(right; eauto)).
        destruct (assert_record pk) as [p1 e1] eqn:AR.
        specialize (IH (tm_remove T_PROBER (tm_remove T_PROBER tm) ++ [(T_PROBER, now + probe_wait_ms, (sq + 1)%N)]) (sq + 1)%N p1).
        destruct (on_records rs p1) as [p2 e2] eqn:OR.
        rewrite apply_effs_app.
        destruct (apply_effs now tm sq e1) as [[tm1 sq1] o1] eqn:AE.
        destruct A as (m & -> & -> & A3 & A4 & A5 & A6 & A7 & A8 & A9).
        assert (sq1 = (sq + 1)%N) as ->.
        { unfold assert_record in AR. injection AR as <- <-. cbn [apply_effs] in AE. injection AE as _ <- _. reflexivity. }
        assert (tm_remove T_PROBER (tm_remove T_PROBER tm) = []) as TR by (rewrite C8; reflexivity).
        rewrite TR in IH. cbn [app] in IH.
        cbn [pm_now] in A9.
        specialize (IH (mkPmon (pb_suffix p + 1) (Some (candidate base tail (pb_suffix p + 1), now)) false false (pm_now q))).
        assert (C' : Coupled (mkSim now [(T_PROBER, now + probe_wait_ms, (sq + 1)%N)] (sq + 1)%N p1)
                       (mkPmon (pb_suffix p + 1) (Some (candidate base tail (pb_suffix p + 1), now)) false false (pm_now q))).
        { unfold Coupled. cbn [s_st s_now s_tm pm_now pm_done pm_probes pm_last pm_disturbed].
          rewrite A3, A4, A7, A8, A5, A6. cbn [pb_suffix pb_confirmed pk]. rewrite Hc.
          repeat (split; [first [reflexivity | assumption]|]).
          exists (now + probe_wait_ms), (sq + 1)%N. repeat split; try reflexivity.
          - f_equal. f_equal. lia.
          - lia. }
        assert (Hc1 : pb_confirmed p1 = false) by (rewrite A4; exact Hc).
        specialize (IH C' Hc1).
        destruct (apply_effs now [(T_PROBER, now + probe_wait_ms, (sq + 1)%N)] (sq + 1)%N e2) as [[tm2 sq2] o2].
        destruct IH as (q' & I1 & I2 & I3).
        cbn [app]. rewrite C3 in A9. rewrite A9. exists q'. auto.
      + assert (C0 : Coupled (mkSim now tm sq p) q).
        { unfold Coupled. cbn [s_st s_now s_tm]. rewrite Hc.
          split; [exact C1|]. split; [rewrite <- Hc; exact C2|]. split; [exact C3|]. split; [exact C4|]. split; [exact C5|].
          split; [exact C6|]. split; [exact C7|]. exists d, s0. auto. }
        exact (IH tm sq p q C0 Hc).
  Qed.
End Coupling.

Section Run.
  Variable rec0 : record.
  Variables base tail : bytes.
  Notation Coupled := (Coupled rec0 base tail).

  Lemma apply_effs_times now : forall es tm sq,
    forallb (out_time_ok now now) (snd (apply_effs now tm sq es)) = true.
  Proof.
    induction es as [|e es IH]; intros tm sq; cbn [apply_effs]; [reflexivity|].
    destruct e; try apply IH;
      (specialize (IH tm sq); destruct (apply_effs now tm sq es) as [[a b] c]; cbn [snd forallb out_time_ok] in *;
       rewrite IH; replace (now <=? now) with true by lia; reflexivity).
  Qed.

  Lemma sim_eta (s : @sim prober) : mkSim (s_now s) (s_tm s) (s_seq s) (s_st s) = s.
  Proof. destruct s; reflexivity. Qed.

  Lemma deliver_ok s q m :
    Coupled s q ->
    let '(s', outs) := dispatch prober unit prober_handle s (EvMsg m) in
    exists q', pmon_step rec0 base tail q (ADeliver m) outs = inl q' /\ Coupled s' q'.
  Proof.
    intro C. unfold dispatch. cbn [prober_handle pmon_step].
    pose proof C as (C1 & C2 & _). rewrite C2.
    unfold prober_ignore_message in *. destruct (pb_confirmed (s_st s) || negb (m_response m)) eqn:E.
    - cbn [apply_effs]. rewrite sim_eta. cbn [forallb negb]. exists q. auto.
    - apply orb_false_iff in E as [Ec _].
      pose proof (on_records_ok rec0 base tail (s_now s) (m_records m) (s_tm s) (s_seq s) (s_st s) q) as R.
      rewrite sim_eta in R. specialize (R C Ec).
      destruct (on_records (m_records m) (s_st s)) as [p' es].
      pose proof (apply_effs_times (s_now s) es (s_tm s) (s_seq s)) as T.
      destruct (apply_effs (s_now s) (s_tm s) (s_seq s) es) as [[tm' sq'] o]. cbn [snd] in T.
      destruct R as (q' & R1 & R2 & _). rewrite C1, T. cbn [negb]. exists q'. auto.
  Qed.

  (* firing whatever is due: nothing, or exactly the confirmation, which the acceptor accepts *)
  Lemma fire_ok fuel t strict late s q :
    (2 <= fuel)%nat -> Coupled s q -> s_now s <= t -> (late = true -> s_now s = t) ->
    let '(s', o) := fire_due prober unit prober_handle fuel t strict late s in
    (o = [] /\ s' = s) \/
    (exists t' p, o = [OSignal t' OBJ SIG_nameConfirmed p] /\ s_now s <= t' <= t /\ s_now s' = t' /\
        exists q', pmon_out rec0 base tail q (OSignal t' OBJ SIG_nameConfirmed p) = inl q' /\
                   Coupled s' (mkPmon (pm_probes q') (pm_last q') (pm_disturbed q') (pm_done q') t')).
  Proof.
    intros Hf C Hnt Hlate. destruct fuel as [|[|f]]; try lia. cbn [fire_due].
    destruct C as (C1 & C2 & C3 & C4 & C5 & C6 & C7 & C8).
    destruct (pb_confirmed (s_st s)) eqn:Ec.
    - rewrite C8. cbn [tm_next]. left. auto.
    - destruct C8 as (d & s0 & C8 & C9 & C10 & C11). rewrite C8. cbn [tm_next].
      destruct ((if strict then d <? t else d <=? t) && true) eqn:Due; [|left; auto].
      right. cbn [tm_remove filter]. rewrite N.eqb_refl. cbn [negb].
      unfold dispatch. cbn [s_now s_tm s_seq s_st prober_handle apply_effs tm_next].
      set (now' := if late then s_now s else Z.max (s_now s) d).
      assert (Hd : d <= t) by (destruct strict; lia).
      assert (Hn' : s_now s <= now' <= t /\ d <= now').
      { unfold now'. destruct late; [specialize (Hlate eq_refl)|]; lia. }
      exists now', (PBytes (r_name (pb_proposed (s_st s)))). split; [reflexivity|]. split; [lia|]. split; [reflexivity|].
      cbn [pmon_out]. rewrite N.eqb_refl. cbn [negb]. rewrite C2, C9, C4, C10. cbn [bs_data negb].
      rewrite bytes_eqb_refl. pose proof probe_wait_ok.
      replace (d - probe_wait_ms + 2000 <=? now') with true by lia. cbn [andb].
      eexists. split; [reflexivity|].
      unfold Coupled. cbn [s_st s_now s_tm pm_now pm_done pm_probes pb_confirmed pb_suffix pb_proposed pb_base pb_tail].
      repeat split; auto.
  Qed.

  Definition set_pnow (n : Z) (q : pmon) : pmon := mkPmon (pm_probes q) (pm_last q) (pm_disturbed q) (pm_done q) n.
  Lemma pmon_out_sig_now q n t ob sg p :
    pmon_out rec0 base tail (set_pnow n q) (OSignal t ob sg p) =
    match pmon_out rec0 base tail q (OSignal t ob sg p) with inl q' => inl (set_pnow n q') | inr c => inr c end.
  Proof.
    cbn [pmon_out set_pnow pm_done pm_last pm_disturbed pm_probes pm_now].
    destruct p; try reflexivity. destruct (negb (sg =? SIG_nameConfirmed)%N); [reflexivity|].
    destruct (pm_done q); [reflexivity|]. destruct (pm_last q) as [[nm t0]|]; [|reflexivity].
    destruct (bytes_eqb (bs_data b) nm && negb (pm_disturbed q) && (t0 + 2000 <=? t)); reflexivity.
  Qed.

  Lemma adv_ok fuel s q o :
    (2 <= fuel)%nat -> Coupled s q ->
    match o with AAdv _ | AAdvB _ | ALate _ => True | _ => False end ->
    let '(s', outs) := step prober unit prober_handle fuel s o in
    exists q', pmon_step rec0 base tail q o outs = inl q' /\ Coupled s' q'.
  Proof.
    intros Hf C Ho.
    assert (Cnow : forall t s1 q1, Coupled s1 q1 -> s_now s1 <= t ->
               Coupled (set_now prober t s1) (mkPmon (pm_probes q1) (pm_last q1) (pm_disturbed q1) (pm_done q1) t)).
    { intros t s1 q1 (D1 & D2 & D3 & D4 & D5 & D6 & D7 & D8) Hle. unfold Coupled, set_now.
      cbn [s_st s_now s_tm pm_now pm_done pm_probes pm_last pm_disturbed].
      repeat (split; [first [assumption | lia]|]).
      destruct (pb_confirmed (s_st s1)); [exact D8|]. destruct D8 as (d & s0 & E1 & E2 & E3 & E4).
      exists d, s0. repeat split; auto. lia. }
    pose proof C as (C1 & _).
    destruct o as [m|t|t|t|a]; try destruct Ho; cbn [step pmon_step]; rewrite C1.
    - (* AAdv *)
      destruct (t <? s_now s) eqn:E; [exists q; auto|].
      pose proof (fire_ok fuel t false false s q Hf C ltac:(lia) ltac:(discriminate)) as F.
      destruct (fire_due prober unit prober_handle fuel t false false s) as [s' o].
      destruct F as [[-> ->]|(t' & p & -> & Ht' & Hs' & q' & Q1 & Q2)].
      + cbn [forallb]. eexists. split; [reflexivity|]. apply Cnow; [exact C|lia].
      + cbn [forallb out_time_ok]. replace ((s_now s <=? t') && (t' <=? t)) with true by lia. cbn [andb negb].
        rewrite Q1. eexists. split; [reflexivity|]. exact (Cnow t s' _ Q2 ltac:(lia)).
    - (* AAdvB *)
      destruct (t <? s_now s) eqn:E; [exists q; auto|].
      pose proof (fire_ok fuel t true false s q Hf C ltac:(lia) ltac:(discriminate)) as F.
      destruct (fire_due prober unit prober_handle fuel t true false s) as [s' o].
      destruct F as [[-> ->]|(t' & p & -> & Ht' & Hs' & q' & Q1 & Q2)].
      + cbn [forallb]. eexists. split; [reflexivity|]. apply Cnow; [exact C|lia].
      + cbn [forallb out_time_ok]. replace ((s_now s <=? t') && (t' <=? t)) with true by lia. cbn [andb negb].
        rewrite Q1. eexists. split; [reflexivity|]. exact (Cnow t s' _ Q2 ltac:(lia)).
    - (* ALate *)
      destruct (t <? s_now s) eqn:E; [exists q; auto|].
      pose proof (Cnow t s q C ltac:(lia)) as C'.
      assert (Hn : s_now (set_now prober t s) = t) by (unfold set_now; cbn [s_now]; lia).
      pose proof (fire_ok fuel t false true (set_now prober t s) _ Hf C' ltac:(lia) ltac:(intros _; exact Hn)) as F.
      destruct (fire_due prober unit prober_handle fuel t false true (set_now prober t s)) as [s' o].
      destruct F as [[-> ->]|(t' & p & -> & Ht' & Hs' & q' & Q1 & Q2)].
      + cbn [forallb]. eexists. split; [reflexivity|]. exact C'.
      + rewrite Hn in Ht'. clear Hs'. assert (t' = t) by lia. subst t'.
        cbn [forallb out_time_ok]. replace ((s_now s <=? t) && (t <=? t)) with true by lia. cbn [andb negb].
        (* the acceptor's state differs from q only in pm_now, which pmon_out only copies *)
        pose proof (pmon_out_sig_now q t t OBJ SIG_nameConfirmed p) as PN. unfold set_pnow in PN at 1. rewrite Q1 in PN.
        destruct (pmon_out rec0 base tail q (OSignal t OBJ SIG_nameConfirmed p)) as [q0|c]; [|discriminate].
        injection PN as ->. eexists. split; [reflexivity|]. exact Q2.
  Qed.
End Run.

Definition no_api (o : aop unit) : Prop := match o with AApi _ => False | _ => True end.

Lemma run_accepted rec0 base tail fuel : (2 <= fuel)%nat ->
  forall ops s q k, Coupled rec0 base tail s q -> Forall no_api ops ->
  pmon_run rec0 base tail q k ops (run_g prober unit prober_handle (fun _ => []) fuel s ops) = None.
Proof.
  intros Hf. induction ops as [|o ops IH]; intros s q k C W; cbn [run_g pmon_run]; [reflexivity|].
  inversion W as [|? ? W1 W2]; subst.
  assert (S : let '(s', outs) := step prober unit prober_handle fuel s o in
              exists q', pmon_step rec0 base tail q o outs = inl q' /\ Coupled rec0 base tail s' q').
  { destruct o as [m|t|t|t|a].
    - cbn [step]. apply deliver_ok, C.
    - apply adv_ok; auto; exact I.
    - apply adv_ok; auto; exact I.
    - apply adv_ok; auto; exact I.
    - destruct W1. }
  destruct (step prober unit prober_handle fuel s o) as [s' outs]. rewrite app_nil_r.
  destruct S as (q' & S1 & S2). rewrite S1. apply IH; assumption.
Qed.

Theorem prober_accepted rec0 ops fuel :
  (2 <= fuel)%nat -> Forall no_api ops -> mon_prober rec0 ops (prober_run fuel rec0 ops) = None.
Proof.
  intros Hf W. unfold mon_prober, prober_run, prober_new.
  destruct (match index_of DOT (bs_data (r_name rec0)) with
            | Some i => (firstn i (bs_data (r_name rec0)), skipn i (bs_data (r_name rec0)))
            | None => ([], bs_data (r_name rec0)) end) as [base tail].
  pose proof (assert_ok rec0 base tail 0 [] 0%N (mkProber base tail rec0 1 false) (mkPmon 0 None false false 0)) as A.
  cbn [pb_base pb_tail pb_proposed pb_suffix pm_done pm_probes] in A.
  specialize (A eq_refl eq_refl eq_refl eq_refl eq_refl ltac:(left; reflexivity)).
  destruct (assert_record (mkProber base tail rec0 1 false)) as [p1 e1].
  destruct (apply_effs 0 [] 0%N e1) as [[tm1 sq1] o1].
  destruct A as (m & -> & -> & A3 & A4 & A5 & A6 & A7 & A8 & A9).
  cbn [pmon_outs]. cbn [pm_now] in A9. rewrite A9.
  apply run_accepted; [exact Hf| |exact W].
  unfold Coupled. cbn [s_st s_now s_tm pm_now pm_done pm_probes pm_last pm_disturbed].
  rewrite A3, A4, A7, A8, A5, A6. cbn [pb_suffix pb_confirmed].
  repeat (split; [reflexivity|]). exists (0 + probe_wait_ms), (0 + 1)%N.
  repeat split; try reflexivity; try lia.
Qed.
