(* Properties_C20.v — records, messages, queries, services and bitmaps are independent values. *)
From QV Require Import Base Fields SrcFacts Msg Cache CacheSpec CacheProofs Values ValuesProofs.
Local Open Scope N_scope.

(* For EVERY program of construction, copy-construction, assignment between arbitrary variables (including x = x),
   mutation through the setters (including Bitmap::setData called with the bitmap's own data()), comparison, reading
   and destruction over Bitmap / Record / Message / Query / Service variables - well-scoped or not -, the heap
   interpretation of bitmap.cpp (new[] / delete[] / raw reads; reading or freeing a block that is not live is Fault,
   as is a double free) never faults, and every comparison and every value it prints equals what the pure
   interpretation prints, in which each variable simply holds a value.  Invariant: live objects own pairwise distinct
   live blocks of exactly their recorded length. *)
Theorem C20_values ops : values_run ops = Ok (values_pure ops).
Proof. exact (values_run_pure ops). Qed.
Print Assumptions C20_values.

(* Record::operator== (conjunct list read from record.cpp): equal iff name, type and every data field agree;
   the TTL and the cache-flush bit - the remaining members of RecordPrivate (member list read from record_p.h) - are
   not compared *)
Theorem C20_record_eq a b : record_eqb a b = forallb (fun f => rfield_agree f a b) data_fields.
Proof. exact (record_eqb_same_data a b). Qed.
Print Assumptions C20_record_eq.

Theorem C20_record_private_fields_covered :
  forallb (fun f => existsb (rfield_eqb f) record_eq_fields || rfield_eqb f F_ttl || rfield_eqb f F_flushCache) record_private_fields = true
  /\ existsb (rfield_eqb F_ttl) record_eq_fields = false /\ existsb (rfield_eqb F_flushCache) record_eq_fields = false
  /\ forallb (fun f => existsb (rfield_eqb f) record_private_fields) all_rfields = true.
Proof. vm_compute. auto. Qed.
Print Assumptions C20_record_private_fields_covered.

(* non-vacuity: self-assignment, aliasing setData and destruction orders that the original code got wrong *)
Example C20_example :
  values_run [VNew 0 KBitmap; VSetBytes 0 [1; 2; 3]; VAssign 0 0; VSetSelf 0 2; VCopy 1 0; VDel 0; VGet 1; VEq 1 1]
  = Ok [VONone; VONone; VONone; VONone; VONone; VONone; VOVal (PBitmap [1; 2]); VOEq true].
Proof. vm_compute. reflexivity. Qed.
