(* Msg.v — Record / Query / Message / Service as the library's private structs. *)
From QV Require Import Base Fields SrcFacts.
Local Open Scope N_scope.

(* QHostAddress: null, IPv4 (32 bit), IPv6 (16 bytes).  operator== is strict (no v4-mapped conversion). *)
Inductive addr := ANull | A4 (a : N) | A6 (b : bytes).
Definition addr_eqb (x y : addr) : bool :=
  match x, y with
  | ANull, ANull => true
  | A4 a, A4 b => a =? b
  | A6 a, A6 b => bytes_eqb a b
  | _, _ => false
  end.

(* QMap<QByteArray,QByteArray>: association list, strictly sorted by key; values keep the null flag *)
Definition attrs := list (bytes * bstr).
Fixpoint attrs_eqb (a b : attrs) : bool :=
  match a, b with
  | [], [] => true
  | (k, v) :: a', (k', v') :: b' => bytes_eqb k k' && bs_eqb v v' && attrs_eqb a' b'
  | _, _ => false
  end.
Fixpoint attrs_insert (k : bytes) (v : bstr) (m : attrs) : attrs :=
  match m with
  | [] => [(k, v)]
  | (k', v') :: m' => if bytes_ltb k k' then (k, v) :: m
                      else if bytes_ltb k' k then (k', v') :: attrs_insert k v m'
                      else (k, v) :: m'
  end.

Record record := mkRecord {
  r_name : bstr; r_type : N; r_flush : bool; r_ttl : N;
  r_addr : addr; r_target : bstr; r_next : bstr;
  r_prio : N; r_weight : N; r_port : N;
  r_attrs : attrs; r_bitmap : bytes }.

Definition default_record : record :=
  mkRecord None 0 false default_ttl ANull None None 0 0 0 [] [].

Definition set_name n r := mkRecord n (r_type r) (r_flush r) (r_ttl r) (r_addr r) (r_target r) (r_next r) (r_prio r) (r_weight r) (r_port r) (r_attrs r) (r_bitmap r).
Definition set_type t r := mkRecord (r_name r) t (r_flush r) (r_ttl r) (r_addr r) (r_target r) (r_next r) (r_prio r) (r_weight r) (r_port r) (r_attrs r) (r_bitmap r).
Definition set_flush f r := mkRecord (r_name r) (r_type r) f (r_ttl r) (r_addr r) (r_target r) (r_next r) (r_prio r) (r_weight r) (r_port r) (r_attrs r) (r_bitmap r).
Definition set_ttl t r := mkRecord (r_name r) (r_type r) (r_flush r) t (r_addr r) (r_target r) (r_next r) (r_prio r) (r_weight r) (r_port r) (r_attrs r) (r_bitmap r).
Definition set_addr a r := mkRecord (r_name r) (r_type r) (r_flush r) (r_ttl r) a (r_target r) (r_next r) (r_prio r) (r_weight r) (r_port r) (r_attrs r) (r_bitmap r).
Definition set_target t r := mkRecord (r_name r) (r_type r) (r_flush r) (r_ttl r) (r_addr r) t (r_next r) (r_prio r) (r_weight r) (r_port r) (r_attrs r) (r_bitmap r).
Definition set_next n r := mkRecord (r_name r) (r_type r) (r_flush r) (r_ttl r) (r_addr r) (r_target r) n (r_prio r) (r_weight r) (r_port r) (r_attrs r) (r_bitmap r).
Definition set_prio p r := mkRecord (r_name r) (r_type r) (r_flush r) (r_ttl r) (r_addr r) (r_target r) (r_next r) p (r_weight r) (r_port r) (r_attrs r) (r_bitmap r).
Definition set_weight w r := mkRecord (r_name r) (r_type r) (r_flush r) (r_ttl r) (r_addr r) (r_target r) (r_next r) (r_prio r) w (r_port r) (r_attrs r) (r_bitmap r).
Definition set_port p r := mkRecord (r_name r) (r_type r) (r_flush r) (r_ttl r) (r_addr r) (r_target r) (r_next r) (r_prio r) (r_weight r) p (r_attrs r) (r_bitmap r).
Definition set_attrs a r := mkRecord (r_name r) (r_type r) (r_flush r) (r_ttl r) (r_addr r) (r_target r) (r_next r) (r_prio r) (r_weight r) (r_port r) a (r_bitmap r).
Definition set_bitmap b r := mkRecord (r_name r) (r_type r) (r_flush r) (r_ttl r) (r_addr r) (r_target r) (r_next r) (r_prio r) (r_weight r) (r_port r) (r_attrs r) b.

(* one conjunct of Record::operator== *)
Definition rfield_agree (f : rfield) (a b : record) : bool :=
  match f with
  | F_name => bs_eqb (r_name a) (r_name b)
  | F_type => r_type a =? r_type b
  | F_flushCache => Bool.eqb (r_flush a) (r_flush b)
  | F_ttl => r_ttl a =? r_ttl b
  | F_address => addr_eqb (r_addr a) (r_addr b)
  | F_target => bs_eqb (r_target a) (r_target b)
  | F_nextDomainName => bs_eqb (r_next a) (r_next b)
  | F_priority => r_prio a =? r_prio b
  | F_weight => r_weight a =? r_weight b
  | F_port => r_port a =? r_port b
  | F_attributes => attrs_eqb (r_attrs a) (r_attrs b)
  | F_bitmap => bytes_eqb (r_bitmap a) (r_bitmap b)
  end.

(* Record::operator== : the conjunction over the field list read from record.cpp *)
Definition record_eqb (a b : record) : bool := forallb (fun f => rfield_agree f a b) record_eq_fields.

Record query := mkQuery { q_name : bstr; q_type : N; q_unicast : bool }.
Definition default_query := mkQuery None 0 false.

Record message := mkMessage {
  m_addr : addr; m_port : N; m_id : N; m_response : bool; m_truncated : bool;
  m_queries : list query; m_records : list record }.
Definition default_message := mkMessage ANull 0 0 false false [] [].

Record service := mkService {
  s_type : bstr; s_name : bstr; s_hostname : bstr; s_port : N; s_attrs : attrs }.
Definition sfield_agree (f : sfield) (a b : service) : bool :=
  match f with
  | S_type => bs_eqb (s_type a) (s_type b)
  | S_name => bs_eqb (s_name a) (s_name b)
  | S_hostname => bs_eqb (s_hostname a) (s_hostname b)
  | S_port => s_port a =? s_port b
  | S_attributes => attrs_eqb (s_attrs a) (s_attrs b)
  end.
Definition service_eqb (a b : service) : bool := forallb (fun f => sfield_agree f a b) service_eq_fields.

(* Message::reply *)
Definition reply_to (other : message) : message :=
  let a := if m_port other =? mdns_port
           then match m_addr other with A4 _ => A4 mdns_group4 | _ => A6 mdns_group6 end
           else m_addr other in
  mkMessage a (m_port other) (m_id other) true false [] [].

Definition add_record (r : record) (m : message) : message :=
  mkMessage (m_addr m) (m_port m) (m_id m) (m_response m) (m_truncated m) (m_queries m) (m_records m ++ [r]).
Definition add_query (q : query) (m : message) : message :=
  mkMessage (m_addr m) (m_port m) (m_id m) (m_response m) (m_truncated m) (m_queries m ++ [q]) (m_records m).
Definition set_response (b : bool) (m : message) : message :=
  mkMessage (m_addr m) (m_port m) (m_id m) b (m_truncated m) (m_queries m) (m_records m).
