(* BrowserSrv.v — C15 (removal clause) at run level: in every world reached by any sequence of handler invocations, a
   service a browser currently has added always has an SRV record for its instance in that browser's cache: the removal
   is reported no later than the moment the last SRV record leaves the cache (by expiry or by a goodbye). *)
From QV Require Import Base Fields SrcFacts Msg SrcDecisions Cache CacheSpec CacheProofs Sim Prober Resolver Browser BrowserProofs BrowserInv.
From Coq Require Import ZifyBool ZifyNat ZifyN.
Local Open Scope Z_scope.

Definition is_srv_of (k : bytes) (x : record) : bool := bytes_eqb (bs_data (r_name x)) k && (r_type x =? 33)%N.
Definition has_srv (k : bytes) (v : view) : Prop := exists x, In x v /\ is_srv_of k x = true.

Lemma lookup_srv_has k v : lookup_view (Some k) T_SRV v <> [] <-> has_srv k v.
Proof.
  unfold lookup_view, has_srv. split.
  - intro H. destruct (filter (cache_lookup_match (Some k) T_SRV) v) as [|x l] eqn:E; [congruence|].
    assert (Hx : In x (filter (cache_lookup_match (Some k) T_SRV) v)) by (rewrite E; left; reflexivity).
    apply filter_In in Hx as [Hx M]. exists x. split; [exact Hx|]. unfold cache_lookup_match in M. cbn in M. exact M.
  - intros (x & Hx & M) E. assert (Hf : In x (filter (cache_lookup_match (Some k) T_SRV) v)).
    { apply filter_In. split; [exact Hx|]. unfold cache_lookup_match. cbn. exact M. }
    rewrite E in Hf. destruct Hf.
Qed.

(* ---- the sequence of contents a cache shows while it removes entries one by one ---- *)
Definition Rm (r : record) (v v' : view) : Prop := exists a b, v = a ++ r :: b /\ v' = a ++ b.
Fixpoint Chain (v : view) (sgs : list sigsnap) (vf : view) : Prop :=
  match sgs with
  | [] => v = vf
  | (Expired r, v') :: rest => Rm r v v' /\ Chain v' rest vf
  | (ShouldQuery r, v') :: rest => v' = v /\ Chain v' rest vf
  end.

Lemma pass_chain now : forall es kept nn k n sgs, pass now kept es nn = (k, n, sgs) ->
  Chain (map e_rec (kept ++ es)) sgs (map e_rec k).
Proof.
  induction es as [|e es IH]; intros kept nn k n sgs H; cbn [pass] in H.
  - injection H as <- _ <-. rewrite app_nil_r. reflexivity.
  - destruct (drop_passed now (e_trig e)) as [sq rest]. destruct rest as [|t0 rest'].
    + destruct (pass now kept es nn) as [[k0 n0] sg0] eqn:E. injection H as <- _ <-. cbn [Chain]. split; [|exact (IH _ _ _ _ _ E)].
      exists (map e_rec kept), (map e_rec es). rewrite !map_app. auto.
    + set (e' := mkEntry (e_rec e) (t0 :: rest')) in *.
      destruct (pass now (kept ++ [e']) es (min_opt nn t0)) as [[k0 n0] sg0] eqn:E. injection H as <- _ <-.
      pose proof (IH _ _ _ _ _ E) as C. rewrite <- app_assoc in C.
      assert (Eq : map e_rec (kept ++ [e'] ++ es) = map e_rec (kept ++ e :: es)) by (rewrite !map_app; reflexivity).
      rewrite Eq in C.
      assert (Eq2 : map e_rec (kept ++ e' :: es) = map e_rec (kept ++ e :: es)) by (rewrite !map_app; reflexivity).
      destruct sq; [cbn [Chain]; rewrite Eq2; split; [reflexivity|]|]; exact C.
Qed.

(* addRecord: with TTL 0 the matching entries leave one by one; otherwise silently, and the new record is appended *)
Lemma scan_chain r : forall es kept k sgs, scan r kept es = (k, sgs) ->
  if (r_ttl r =? 0)%N then Chain (map e_rec (kept ++ es)) sgs (map e_rec k) /\
                          forall x v', In (Expired x, v') sgs -> spec_match r x = true
  else sgs = [].
Proof.
  induction es as [|e es IH]; intros kept k sgs H; cbn [scan] in H.
  - injection H as <- <-. rewrite app_nil_r. destruct (r_ttl r =? 0)%N; [split; [reflexivity|intros x v' []]|reflexivity].
  - pose proof (cache_match_spec r (e_rec e)) as M. destruct (cache_match r (e_rec e)) eqn:Cm.
    + destruct (scan r kept es) as [k0 sg0] eqn:E. injection H as <- <-. specialize (IH kept k0 sg0 E).
      destruct (r_ttl r =? 0)%N; [|exact IH]. destruct IH as [C A]. split.
      * cbn [Chain]. split; [|exact C]. exists (map e_rec kept), (map e_rec es). rewrite !map_app. auto.
      * intros x v' [Hin|Hin]; [injection Hin as <- _; congruence|exact (A x v' Hin)].
    + specialize (IH (kept ++ [e]) k sgs H). rewrite <- app_assoc in IH. exact IH.
Qed.

(* ---- what one signal does to an attached browser ---- *)
Definition Keys (v : view) (b : browser) : Prop :=
  (forall k s, smap_find k (b_services b) = Some s -> has_srv k v) /\
  (forall k s, smap_find k (b_services b) = Some s -> s_name s <> None).

Lemma has_srv_rm k r v v' : Rm r v v' -> has_srv k v -> is_srv_of k r = false -> has_srv k v'.
Proof.
  intros (a & b & -> & ->) (x & Hx & M) Hr. exists x. split; [|exact M].
  apply in_app_iff in Hx as [Hx|[Hx|Hx]]; apply in_app_iff; [left; exact Hx|subst; congruence|right; exact Hx].
Qed.

Lemma update_service_keys j v fq b : Keys v b -> Keys v (snd (fst (update_service j v fq b))).
Proof.
  intros [K1 K2]. unfold update_service. destruct (split_fq fq) as [sname stype] eqn:SF.
  destruct (browser_not_of_interest _ _) eqn:G; [exact (conj K1 K2)|]. destruct (lookup_view stype T_PTR v); [exact (conj K1 K2)|].
  destruct (lookup_view fq T_SRV v) as [|srv srvs] eqn:S; [exact (conj K1 K2)|]. cbn [fst snd b_services].
  assert (Hfq : exists l0, fq = Some l0).
  { destruct fq as [l0|]; [eauto|]. cbn in SF. injection SF as <- <-. cbn in G. discriminate. }
  destruct Hfq as [l0 ->]. cbn [bs_data].
  assert (Hs : has_srv l0 v) by (apply lookup_srv_has; rewrite S; discriminate).
  assert (Hn : sname <> None) by (unfold split_fq in SF; cbn [bs_data] in SF; destruct (index_of DOT l0); injection SF as <- _; discriminate).
  unfold Keys. cbn [fst snd b_services]. split; intros k s0; rewrite smap_find_insert; destruct (bytes_eqb k l0) eqn:E.
  - intros _. apply bytes_eqb_eq in E. subst. exact Hs.
  - apply K1.
  - intro X. injection X as <-. exact Hn.
  - apply K2.
Qed.

Lemma record_expired_keys j r v v' b :
  Rm r v v' -> Keys v b -> Keys v' (fst (on_record_expired j v' r b)).
Proof.
  intros R [K1 K2]. unfold on_record_expired. destruct (r_type r =? T_SRV)%N eqn:T.
  - apply N.eqb_eq in T. destruct (smap_find (bs_data (r_name r)) (b_services b)) as [s|] eqn:F.
    + destruct (bs_is_null (s_name s)) eqn:Nl; [exfalso; apply (K2 _ _ F); destruct (s_name s); [discriminate|reflexivity]|].
      unfold Keys. cbn [fst b_services]. split; intros k s0; rewrite smap_find_remove; destruct (bytes_eqb k (bs_data (r_name r))) eqn:E; try discriminate.
      * intro X. apply (has_srv_rm k r v v' R (K1 _ _ X)). unfold is_srv_of. rewrite bytes_eqb_sym, E. reflexivity.
      * apply K2.
    + (* not added: every added key differs from this record's name *)
      cbn [fst]. split; [|exact K2]. intros k s0 X. apply (has_srv_rm k r v v' R (K1 _ _ X)). unfold is_srv_of.
      destruct (bytes_eqb (bs_data (r_name r)) k) eqn:E; [|reflexivity]. apply bytes_eqb_eq in E. subst. congruence.
  - assert (Kv' : Keys v' b).
    { split; [|exact K2]. intros k s0 X. apply (has_srv_rm k r v v' R (K1 _ _ X)). unfold is_srv_of. change T_SRV with 33%N in T. rewrite T. apply andb_false_r. }
    destruct (r_type r =? T_TXT)%N; [|exact Kv'].
    pose proof (update_service_keys j v' (r_name r) b Kv') as U. destruct (update_service j v' (r_name r) b) as [[n b'] es]. exact U.
Qed.

(* all browsers attached to cache ci *)
Definition KeysAll (ci : nat) (v : view) (bs : list browser) : Prop := forall b, In b bs -> b_cache b = ci -> Keys v b.

Lemma slots_for_keys ci sg v vprev : forall bs j0,
  (match sg with Expired r => Rm r vprev v | ShouldQuery _ => v = vprev end) ->
  KeysAll ci vprev bs -> KeysAll ci v (fst (slots_for ci sg v j0 bs)) /\
  map b_cache (fst (slots_for ci sg v j0 bs)) = map b_cache bs /\
  (forall b, In b (fst (slots_for ci sg v j0 bs)) -> b_cache b <> ci -> In b bs).
Proof.
  induction bs as [|b bs IH]; intros j0 Hs K; cbn [slots_for]; [split; [intros b0 []|split; [reflexivity|intros b0 []]]|].
  assert (Kb : b_cache b = ci -> Keys vprev b) by (intro E; exact (K b (or_introl eq_refl) E)).
  assert (H0 : let '(b', e) := (if Nat.eqb (b_cache b) ci then match sg with ShouldQuery r => (b, on_should_query r) | Expired r => on_record_expired j0 v r b end else (b, [])) in
               b_cache b' = b_cache b /\ (b_cache b = ci -> Keys v b') /\ (b_cache b <> ci -> b' = b)).
  { destruct (Nat.eqb (b_cache b) ci) eqn:E.
    - apply Nat.eqb_eq in E. destruct sg as [r|r].
      + subst v. split; [reflexivity|]. split; [intro X; exact (Kb X)|intro X; congruence].
      + pose proof (record_expired_keys j0 r vprev v b Hs (Kb E)) as X. pose proof (record_expired_step j0 v r b) as Y.
        destruct (on_record_expired j0 v r b) as [b' e]. destruct Y as (_ & Y & _). cbn [fst] in X.
        split; [exact Y|]. split; [intros _; exact X|intro Z; congruence].
    - apply Nat.eqb_neq in E. split; [reflexivity|]. split; [intro X; congruence|reflexivity]. }
  destruct (if Nat.eqb (b_cache b) ci then _ else _) as [b' e]. destruct H0 as (C0 & K0 & U0).
  specialize (IH (S j0) Hs (fun b1 H1 => K b1 (or_intror H1))). destruct (slots_for ci sg v (S j0) bs) as [bs'' e']. cbn [fst] in *.
  destruct IH as (I1 & I2 & I3). split; [|split].
  - intros b1 [<-|H1] E1; [apply K0; congruence|apply I1; assumption].
  - cbn [map]. rewrite C0, I2. reflexivity.
  - intros b1 [<-|H1] E1; [left; symmetry; apply U0; congruence|right; apply I3; assumption].
Qed.

Lemma deliver_signals_keys ci : forall sgs v vf bs,
  Chain v sgs vf -> KeysAll ci v bs ->
  KeysAll ci vf (fst (deliver_signals ci sgs bs)) /\ map b_cache (fst (deliver_signals ci sgs bs)) = map b_cache bs /\
  (forall b, In b (fst (deliver_signals ci sgs bs)) -> b_cache b <> ci -> In b bs).
Proof.
  induction sgs as [|[sg v'] sgs IH]; intros v vf bs C K; cbn [deliver_signals].
  - cbn in C. subst. cbn [fst]. split; [exact K|]. split; [reflexivity|auto].
  - assert (Hs : match sg with Expired r => Rm r v v' | ShouldQuery _ => v' = v end) by (destruct sg; apply C).
    assert (C' : Chain v' sgs vf) by (destruct sg; apply C).
    pose proof (slots_for_keys ci sg v' v bs 0%nat Hs K) as S1. destruct (slots_for ci sg v' 0 bs) as [bs1 e1]. cbn [fst] in S1.
    destruct S1 as (A1 & A2 & A3).
    specialize (IH v' vf bs1 C' A1). destruct (deliver_signals ci sgs bs1) as [bs2 e2]. cbn [fst] in *.
    destruct IH as (B1 & B2 & B3). split; [exact B1|]. split; [congruence|]. intros b H E. apply A3; [apply B3; assumption|exact E].
Qed.

(* ---- worlds ---- *)
Definition cache_view (w : world) (ci : nat) : view := match nth_error (w_caches w) ci with Some c => view_of c | None => [] end.
Definition SrvInv (w : world) : Prop := forall b, In b (w_browsers w) -> Keys (cache_view w (b_cache b)) b.

Lemma Keys_mono v v' b : (forall k, has_srv k v -> has_srv k v') -> Keys v b -> Keys v' b.
Proof. intros M [K1 K2]. split; [intros k s H; apply M, (K1 k s H)|exact K2]. Qed.

Lemma srv_replaced k r x : is_srv_of k x = true -> spec_match r x = true -> is_srv_of k r = true.
Proof.
  unfold is_srv_of, spec_match. intros Hx M. apply andb_true_iff in Hx as [N1 T1]. apply N.eqb_eq in T1. apply bytes_eqb_eq in N1.
  assert (E : bs_eqb (r_name x) (r_name r) = true /\ r_type x = r_type r).
  { apply orb_true_iff in M as [M|M].
    - unfold same_data, data_fields in M. cbn [forallb rfield_agree] in M. apply andb_true_iff in M as [A M]. apply andb_true_iff in M as [B _].
      apply N.eqb_eq in B. auto.
    - apply andb_true_iff in M as [M B]. apply andb_true_iff in M as [_ A]. apply N.eqb_eq in B. auto. }
  destruct E as [A B]. unfold bs_eqb in A. apply bytes_eqb_eq in A. rewrite <- A, N1, <- B, T1. rewrite bytes_eqb_refl. reflexivity.
Qed.

Lemma add_chain now j r c : let '(c', sgs) := add now j r c in
  if (r_ttl r =? 0)%N then Chain (view_of c) sgs (view_of c')
  else sgs = [] /\ forall k, has_srv k (view_of c) -> has_srv k (view_of c').
Proof.
  unfold add, view_of. rewrite rearm_match. pose proof (scan_entries r [] (c_entries c)) as SE.
  destruct (scan r [] (c_entries c)) as [kept sg] eqn:E. pose proof (scan_chain r _ _ _ _ E) as SC. cbn [app fst] in *.
  destruct (r_ttl r =? 0)%N.
  - cbn [c_entries]. exact (proj1 SC).
  - assert (X : forall k, has_srv k (map e_rec (c_entries c)) -> has_srv k (map e_rec (kept ++ [mkEntry r (triggers now j (r_ttl r))]))).
    { intros k (x & Hx & M). apply in_map_iff in Hx as (e & <- & He). rewrite map_app. cbn [map e_rec].
      destruct (matches r e) eqn:Me.
      - exists r. split; [apply in_app_iff; right; left; reflexivity|]. eapply srv_replaced; eauto.
      - exists (e_rec e). split; [|exact M]. apply in_app_iff. left. apply in_map. rewrite SE. apply filter_In. rewrite Me. auto. }
    destruct (match c_next c with None => true | Some n => hd now (triggers now j (r_ttl r)) <? n end); cbn [c_entries]; auto.
Qed.

Lemma timeout_chain now c : let '(c', sgs) := on_timeout now c in Chain (view_of c) sgs (view_of c').
Proof.
  unfold on_timeout, view_of. destruct (pass now [] (c_entries c) None) as [[k n] sg] eqn:E.
  pose proof (pass_chain now _ _ _ _ _ _ E) as C. cbn [app c_entries] in *. exact C.
Qed.

Lemma In_replace_nth {A} (l : list A) : forall j x y, In y (replace_nth j x l) -> y = x \/ In y l.
Proof.
  unfold replace_nth. induction l as [|a l IH]; intros j x y H.
  - destruct j; cbn in H; destruct H as [H|[]]; left; congruence.
  - destruct j as [|j]; cbn in H.
    + destruct H as [H|H]; [left; congruence|right; right; exact H].
    + destruct H as [H|H]; [right; left; exact H|]. destruct (IH j x y H) as [E|E]; [left; exact E|right; right; exact E].
Qed.

Lemma cache_view_replace_same w ci c c' bs jt :
  nth_error (w_caches w) ci = Some c -> cache_view (mkWorld (replace_nth ci c' (w_caches w)) bs jt) ci = view_of c'.
Proof. intro H. unfold cache_view. cbn [w_caches]. rewrite (nth_error_replace_same _ _ c' c H). reflexivity. Qed.
Lemma cache_view_replace_other w ci c c' bs jt i :
  nth_error (w_caches w) ci = Some c -> i <> ci -> cache_view (mkWorld (replace_nth ci c' (w_caches w)) bs jt) i = cache_view w i.
Proof.
  intros H Hne. unfold cache_view. cbn [w_caches].
  destruct (nth_error_replace_other (w_caches w) ci i c' Hne) as [E|E]; [rewrite E; reflexivity|congruence].
Qed.

Lemma In_cache_index (bs bs' : list browser) : map b_cache bs' = map b_cache bs -> True.
Proof. auto. Qed.

Lemma world_cache_add_srv now ci r w : SrvInv w -> SrvInv (fst (world_cache_add now ci r w)).
Proof.
  intro I. unfold world_cache_add. destruct (nth_error (w_caches w) ci) as [c|] eqn:Nc; [|exact I].
  pose proof (add_chain now (w_jitter w) r c) as AC. destruct (add now (w_jitter w) r c) as [c' sgs].
  assert (K0 : KeysAll ci (view_of c) (w_browsers w)).
  { intros b Hb E. specialize (I b Hb). unfold cache_view in I. rewrite E, Nc in I. exact I. }
  destruct (r_ttl r =? 0)%N.
  - pose proof (deliver_signals_keys ci sgs (view_of c) (view_of c') (w_browsers w) AC K0) as D.
    destruct (deliver_signals ci sgs (w_browsers w)) as [bs es]. cbn [fst] in *. destruct D as (D1 & _ & D3).
    intros b Hb. cbn [w_browsers] in Hb. destruct (Nat.eq_dec (b_cache b) ci) as [E|E].
    + rewrite E, (cache_view_replace_same w ci c c' bs (w_jitter w) Nc). exact (D1 b Hb E).
    + rewrite (cache_view_replace_other w ci c c' bs (w_jitter w) _ Nc E). apply I, D3; assumption.
  - destruct AC as [-> M]. cbn [deliver_signals fst]. intros b Hb. cbn [w_browsers] in Hb.
    destruct (Nat.eq_dec (b_cache b) ci) as [E|E].
    + rewrite E, (cache_view_replace_same w ci c c' _ (w_jitter w) Nc). apply (Keys_mono (view_of c)); [exact M|exact (K0 b Hb E)].
    + rewrite (cache_view_replace_other w ci c c' _ (w_jitter w) _ Nc E). apply I, Hb.
Qed.

Lemma world_cache_timeout_srv now ci w : SrvInv w -> SrvInv (fst (world_cache_timeout now ci w)).
Proof.
  intro I. unfold world_cache_timeout. destruct (nth_error (w_caches w) ci) as [c|] eqn:Nc; [|exact I].
  pose proof (timeout_chain now (mkCache (c_entries c) (c_next c) None)) as TC.
  destruct (on_timeout now (mkCache (c_entries c) (c_next c) None)) as [c' sgs].
  change (view_of (mkCache (c_entries c) (c_next c) None)) with (view_of c) in TC.
  assert (K0 : KeysAll ci (view_of c) (w_browsers w)).
  { intros b Hb E. specialize (I b Hb). unfold cache_view in I. rewrite E, Nc in I. exact I. }
  pose proof (deliver_signals_keys ci sgs (view_of c) (view_of c') (w_browsers w) TC K0) as D.
  destruct (deliver_signals ci sgs (w_browsers w)) as [bs es]. cbn [fst] in *. destruct D as (D1 & _ & D3).
  intros b Hb. cbn [w_browsers] in Hb. destruct (Nat.eq_dec (b_cache b) ci) as [E|E].
  - rewrite E, (cache_view_replace_same w ci c c' bs (w_jitter w) Nc). exact (D1 b Hb E).
  - rewrite (cache_view_replace_other w ci c c' bs (w_jitter w) _ Nc E). apply I, D3; assumption.
Qed.

(* replacing browser j by one with the same cache whose keys are fine *)
Lemma SrvInv_replace w j b' :
  SrvInv w -> Keys (cache_view w (b_cache b')) b' ->
  SrvInv (mkWorld (w_caches w) (replace_nth j b' (w_browsers w)) (w_jitter w)).
Proof.
  intros I K b Hb. cbn [w_browsers] in Hb. apply In_replace_nth in Hb as [->|Hb]; [exact K|exact (I b Hb)].
Qed.

Lemma browser_cache_records_srv now j : forall rs nms nulls w, SrvInv w -> SrvInv (fst (fst (fst (browser_cache_records now j rs nms nulls w)))).
Proof.
  induction rs as [|r rs IH]; intros nms nulls w I; cbn [browser_cache_records]; [exact I|].
  destruct (nth_error (w_browsers w) j) as [b|] eqn:Nb; [|exact I].
  destruct (classify _ r) as [[keep upd] tgt].
  assert (I1 : SrvInv (fst (match tgt with
            | Some t => (mkWorld (w_caches w) (replace_nth j (mkBrowser (b_type b) (b_cache b) (b_services b) (b_hostnames b)
                                   (set_insert (bs_data t) (b_ptr_targets b))) (w_browsers w)) (w_jitter w),
                         [EStart (T_SERVICE_OF j) service_batch_ms])
            | None => (w, []) end))).
  { destruct tgt; [|exact I]. apply SrvInv_replace; [exact I|]. exact (I b (nth_error_In _ _ Nb)). }
  destruct (match tgt with Some t => _ | None => _ end) as [w1 e1]. cbn [fst] in I1.
  assert (I2 : SrvInv (fst (if keep then world_cache_add now (b_cache b) r w1 else (w1, [])))) by (destruct keep; [apply world_cache_add_srv, I1|exact I1]).
  destruct (if keep then _ else _) as [w2 e2]. cbn [fst] in I2.
  match goal with |- context [browser_cache_records now j rs ?n ?l w2] =>
    specialize (IH n l w2 I2); destruct (browser_cache_records now j rs n l w2) as [[[w3 nm] nl] e3] end. exact IH.
Qed.

Lemma browser_update_names_srv j nulls : forall nms w queries, SrvInv w -> SrvInv (fst (fst (browser_update_names j nms nulls w queries))).
Proof.
  induction nms as [|n nms IH]; intros w queries I; cbn [browser_update_names]; [exact I|].
  destruct (nth_error (w_browsers w) j) as [b|] eqn:Nb; [|exact I].
  set (v := match nth_error (w_caches w) (b_cache b) with Some c => view_of c | None => [] end).
  match goal with |- context [update_service j v ?fq b] =>
    pose proof (update_service_keys j v fq b (I b (nth_error_In _ _ Nb))) as U; pose proof (update_service_step j v fq b) as T;
    destruct (update_service j v fq b) as [[need b'] es] end.
  cbn [fst snd] in U. destruct T as (_ & Tc & _).
  match goal with |- context [browser_update_names j nms nulls ?w1 ?q1] =>
    assert (I1 : SrvInv w1) by (apply SrvInv_replace; [exact I|rewrite Tc; exact U]);
    specialize (IH w1 q1 I1); destruct (browser_update_names j nms nulls w1 q1) as [[w'' qs] es'] end. exact IH.
Qed.

Lemma browser_cache_addresses_srv now j : forall rs w, SrvInv w -> SrvInv (fst (browser_cache_addresses now j rs w)).
Proof.
  induction rs as [|r rs IH]; intros w I; cbn [browser_cache_addresses]; [exact I|].
  destruct (nth_error (w_browsers w) j) as [b|]; [|exact I].
  assert (I1 : SrvInv (fst (if ((r_type r =? T_A)%N || (r_type r =? T_AAAA)%N) && set_mem (bs_data (r_name r)) (b_hostnames b)
                            then world_cache_add now (b_cache b) r w else (w, [])))) by (destruct (_ && _); [apply world_cache_add_srv, I|exact I]).
  destruct (if ((r_type r =? T_A)%N || (r_type r =? T_AAAA)%N) && set_mem (bs_data (r_name r)) (b_hostnames b) then _ else _) as [w1 e1].
  specialize (IH w1 I1). destruct (browser_cache_addresses now j rs w1) as [w2 e2]. exact IH.
Qed.

Lemma browser_on_message_srv now j m w : SrvInv w -> SrvInv (fst (browser_on_message now j m w)).
Proof.
  intro I. unfold browser_on_message. destruct (negb (m_response m)); [exact I|].
  pose proof (browser_cache_records_srv now j (m_records m) [] false w I) as H1.
  destruct (browser_cache_records now j (m_records m) [] false w) as [[[w1 nms] nulls] e1]. cbn [fst] in H1.
  pose proof (browser_update_names_srv j nulls nms w1 [] H1) as H2.
  destruct (browser_update_names j nms nulls w1 []) as [[w2 qnames] e2]. cbn [fst] in H2.
  pose proof (browser_cache_addresses_srv now j (m_records m) w2 H2) as H3.
  destruct (browser_cache_addresses now j (m_records m) w2) as [w3 e3]. exact H3.
Qed.

Lemma all_browsers_srv now m : forall n j w, SrvInv w -> SrvInv (fst (all_browsers_on_message now j n m w)).
Proof.
  induction n as [|n IH]; intros j w I; cbn [all_browsers_on_message]; [exact I|].
  pose proof (browser_on_message_srv now j m w I) as H1. destruct (browser_on_message now j m w) as [w1 e1].
  specialize (IH (S j) w1 H1). destruct (all_browsers_on_message now (S j) n m w1) as [w2 e2]. exact IH.
Qed.

Theorem world_handle_srv now w ev : SrvInv w -> SrvInv (fst (world_handle now w ev)).
Proof.
  intro I. destruct ev as [m|tid|a]; cbn [world_handle].
  - apply all_browsers_srv, I.
  - destruct (tid mod 3 =? 0)%N; [apply world_cache_timeout_srv, I|]. destruct (tid mod 3 =? 1)%N; [exact I|].
    unfold browser_service_timeout. destruct (nth_error (w_browsers w) (N.to_nat (tid / 3))) as [b|] eqn:Nb; [|exact I].
    destruct (b_ptr_targets b); [exact I|]. cbn [fst]. apply SrvInv_replace; [exact I|]. exact (I b (nth_error_In _ _ Nb)).
  - destruct a as [|ty co|jt|ci r jt|ci n ty]; cbn [fst].
    + intros b Hb. cbn [w_browsers] in Hb. specialize (I b Hb). unfold cache_view in *. cbn [w_caches].
      destruct (nth_error (w_caches w) (b_cache b)) as [c|] eqn:E; [assert (Lt : (b_cache b < length (w_caches w))%nat) by (apply nth_error_Some; congruence); rewrite (nth_error_app1 _ _ Lt), E; exact I|].
      destruct I as [K1 K2]. split; [|exact K2]. intros k s H. destruct (K1 k s H) as (x & [] & _).
    + assert (New : forall ci caches, Keys (match nth_error caches ci with Some c => view_of c | None => [] end) (mkBrowser ty ci [] [] [])).
      { intros. split; intros k s H; discriminate. }
      destruct co as [ci|]; cbn [fst]; intros b Hb; cbn [fst w_browsers] in Hb; apply in_app_iff in Hb as [Hb|[<-|[]]]; unfold cache_view; cbn [fst w_caches b_cache]; try apply New.
      * exact (I b Hb).
      * specialize (I b Hb). unfold cache_view in I.
        destruct (nth_error (w_caches w) (b_cache b)) as [c|] eqn:E; [assert (Lt : (b_cache b < length (w_caches w))%nat) by (apply nth_error_Some; congruence); rewrite (nth_error_app1 _ _ Lt), E; exact I|].
        destruct I as [K1 K2]. split; [|exact K2]. intros k s H. destruct (K1 k s H) as (x & [] & _).
    + exact I.
    + apply (world_cache_add_srv now ci r (mkWorld (w_caches w) (w_browsers w) jt)). exact I.
    + exact I.
Qed.

(* every world reached from the empty one *)
Theorem SrvInv_life : forall evs w, SrvInv w -> SrvInv (fst (world_life evs w)).
Proof.
  unfold world_life. induction evs as [|[now ev] evs IH]; intros w I; cbn [SimProofs.life]; [exact I|].
  pose proof (world_handle_srv now w ev I) as H. destruct (world_handle now w ev) as [w1 e1].
  specialize (IH w1 H). destruct (SimProofs.life world bapi world_handle evs w1) as [w2 e2]. exact IH.
Qed.
