(* ValuesProofs.v — C20: the heap interpretation never faults and refines the pure value semantics. *)
From QV Require Import Base Fields SrcFacts Msg Values.
From Coq Require Import ZifyBool ZifyNat ZifyN.
Local Open Scope N_scope.

(* an object is valid in a heap: its pointer (if any) designates a live block of exactly its length *)
Definition valid (h : heap) (o : bmobj) : Prop :=
  match bo_ptr o with
  | Some p => exists b, nth_error h p = Some (Some b) /\ lenN b = bo_len o
  | None => bo_len o = 0
  end.

Lemma firstn_all_N {A} (l : list A) : firstn (N.to_nat (lenN l)) l = l.
Proof. unfold lenN. rewrite Nat2N.id. apply firstn_all. Qed.

Lemma valid_value h o : valid h o -> exists b, bm_value h o = Ok b /\ lenN b = bo_len o.
Proof.
  unfold valid, bm_value. destruct (bo_ptr o) as [p|].
  - intros (b & Hn & Hl). exists b. unfold h_read. rewrite Hn. cbn [bind]. rewrite <- Hl, N.leb_refl, firstn_all_N. auto.
  - intro H. rewrite H. exists []. auto.
Qed.

Lemma nth_error_alloc {A} (h : list A) x p : (p < length h)%nat -> nth_error (h ++ [x]) p = nth_error h p.
Proof. intro H. apply nth_error_app1. exact H. Qed.

Lemma valid_alloc h x o : valid h o -> valid (h ++ [x]) o /\ bm_value (h ++ [x]) o = bm_value h o.
Proof.
  unfold valid, bm_value, h_read. destruct (bo_ptr o) as [p|]; [|auto].
  intros (b & Hn & Hl). assert (p < length h)%nat by (apply nth_error_Some; congruence).
  rewrite nth_error_alloc by assumption. split; [exists b; auto|reflexivity].
Qed.

Lemma valid_ptr_lt h o p : valid h o -> bo_ptr o = Some p -> (p < length h)%nat.
Proof. unfold valid. intros H E. rewrite E in H. destruct H as (b & Hn & _). apply nth_error_Some. congruence. Qed.

(* fromData from a valid object: a fresh block holding exactly the object's value *)
Lemma from_data_obj h o b : valid h o -> bm_value h o = Ok b ->
  from_data h (bo_len o) (SrcBlock (bo_ptr o)) = Ok (h ++ [Some b], mkBm (bo_len o) (Some (length h))).
Proof.
  unfold valid, bm_value, from_data, src_bytes, h_read. destruct (bo_ptr o) as [p|].
  - intros (b0 & Hn & Hl). rewrite Hn. cbn [bind]. rewrite <- Hl, N.leb_refl, firstn_all_N. intros [= <-]. reflexivity.
  - intros H. rewrite H. cbn. intros [= <-]. reflexivity.
Qed.
Lemma from_data_bytes h n b : n <= lenN b ->
  from_data h n (SrcBytes b) = Ok (h ++ [Some (firstn (N.to_nat n) b)], mkBm n (Some (length h))).
Proof. intro H. unfold from_data, src_bytes. replace (n <=? lenN b) with true by lia. reflexivity. Qed.

Lemma lenN_firstn {A} n (l : list A) : n <= lenN l -> lenN (firstn (N.to_nat n) l) = n.
Proof. unfold lenN. intro H. rewrite firstn_length. lia. Qed.

Lemma valid_new h b n : lenN b = n -> valid (h ++ [Some b]) (mkBm n (Some (length h))) /\ bm_value (h ++ [Some b]) (mkBm n (Some (length h))) = Ok b.
Proof.
  intro Hl. unfold valid, bm_value, h_read. cbn [bo_ptr bo_len].
  rewrite nth_error_app2 by lia. rewrite Nat.sub_diag. cbn [nth_error bind]. split; [exists b; auto|].
  rewrite <- Hl, N.leb_refl, firstn_all_N. reflexivity.
Qed.

Lemma nth_error_firstn' {A} : forall n (l : list A) q, (q < n)%nat -> nth_error (firstn n l) q = nth_error l q.
Proof. induction n as [|n IH]; intros l q H; [lia|]. destruct l as [|x l]; [destruct q; reflexivity|]. destruct q as [|q]; [reflexivity|]. cbn. apply IH. lia. Qed.
Lemma nth_error_skipn' {A} : forall n (l : list A) k, nth_error (skipn n l) k = nth_error l (n + k).
Proof. induction n as [|n IH]; intros l k; [reflexivity|]. destruct l as [|x l]; [destruct k; reflexivity|]. cbn. apply IH. Qed.

(* free: succeeds on a valid object, leaves every other block alone *)
Lemma nth_error_replace {A} (h : list A) p x q : (p < length h)%nat -> q <> p ->
  nth_error (firstn p h ++ x :: skipn (S p) h) q = nth_error h q.
Proof.
  intros Hp Hq. destruct (Nat.ltb q p) eqn:E.
  - apply Nat.ltb_lt in E. rewrite nth_error_app1 by (rewrite firstn_length; lia). apply nth_error_firstn'; lia.
  - apply Nat.ltb_ge in E. rewrite nth_error_app2 by (rewrite firstn_length; lia). rewrite firstn_length, Nat.min_l by lia.
    destruct (q - p)%nat as [|k] eqn:K; [lia|]. cbn [nth_error]. rewrite nth_error_skipn'. f_equal. lia.
Qed.

Lemma free_valid h o : valid h o ->
  exists h', bm_free h o = Ok h' /\ length h' = length h /\
             (forall q, bo_ptr o <> Some q -> nth_error h' q = nth_error h q).
Proof.
  unfold valid, bm_free, h_free. destruct (bo_ptr o) as [p|].
  - intros (b & Hn & _). rewrite Hn. assert (Hp : (p < length h)%nat) by (apply nth_error_Some; congruence).
    eexists. split; [reflexivity|]. split.
    + rewrite app_length, firstn_length, Nat.min_l by lia. cbn [length]. rewrite skipn_length. lia.
    + intros q Hq. apply nth_error_replace; [exact Hp|congruence].
  - intros _. exists h. auto.
Qed.

Lemma valid_other h h' o2 : (forall q, bo_ptr o2 = Some q -> nth_error h' q = nth_error h q) -> valid h o2 ->
  valid h' o2 /\ bm_value h' o2 = bm_value h o2.
Proof.
  unfold valid, bm_value, h_read. destruct (bo_ptr o2) as [p|]; [|auto].
  intros H (b & Hn & Hl). rewrite (H p eq_refl). split; [exists b; auto|reflexivity].
Qed.

(* assignment (also self-assignment) and setData(n, own data) *)
Lemma assign_spec h this other b :
  valid h this -> valid h other -> bm_value h other = Ok b ->
  exists h2 o', bm_assign h this other = Ok (h2, o') /\ valid h2 o' /\ bm_value h2 o' = Ok b /\
    bo_ptr o' = Some (length h) /\ length h2 = S (length h) /\
    (forall q, bo_ptr this <> Some q -> (q < length h)%nat -> nth_error h2 q = nth_error h q).
Proof.
  intros Vt Vo Hb. unfold bm_assign. rewrite (from_data_obj h other b Vo Hb). cbn [bind].
  destruct (valid_alloc h (Some b) this Vt) as [Vt' _].
  destruct (free_valid _ _ Vt') as (h2 & F & L & K). rewrite F. cbn [bind].
  pose proof (valid_value h other Vo) as (b' & Hb' & Hl). rewrite Hb in Hb'. injection Hb' as <-.
  destruct (valid_new h b (bo_len other) Hl) as [Vn Vv].
  assert (Hne : forall q, bo_ptr (mkBm (bo_len other) (Some (length h))) = Some q -> nth_error h2 q = nth_error (h ++ [Some b]) q).
  { cbn. intros q [= <-]. apply K. intro E. apply (valid_ptr_lt h this (length h) Vt) in E. lia. }
  destruct (valid_other _ h2 _ Hne Vn) as [V2 Vv2].
  exists h2, (mkBm (bo_len other) (Some (length h))). split; [reflexivity|]. split; [exact V2|]. split; [rewrite Vv2; exact Vv|].
  split; [reflexivity|]. split; [rewrite L, app_length; cbn; lia|].
  intros q Hq Hlt. rewrite (K q Hq). apply nth_error_alloc. exact Hlt.
Qed.

Lemma set_data_unfold h this n s h1 o' h2 :
  from_data h n s = Ok (h1, o') -> bm_free h1 this = Ok h2 -> bm_set_data h this n s = Ok (h2, o').
Proof. intros A B. unfold bm_set_data. rewrite A. cbn [bind]. rewrite B. reflexivity. Qed.

Lemma set_bytes_spec h this n src :
  valid h this -> n <= lenN src ->
  exists h2 o', bm_set_data h this n (SrcBytes src) = Ok (h2, o') /\ valid h2 o' /\ bm_value h2 o' = Ok (firstn (N.to_nat n) src) /\
    bo_ptr o' = Some (length h) /\ length h2 = S (length h) /\
    (forall q, bo_ptr this <> Some q -> (q < length h)%nat -> nth_error h2 q = nth_error h q).
Proof.
  intros Vt Hn. pose proof (from_data_bytes h n src Hn) as FD.
  set (b := firstn (N.to_nat n) src) in *.
  destruct (valid_alloc h (Some b) this Vt) as [Vt' _].
  destruct (free_valid _ _ Vt') as (h2 & F & L & K).
  destruct (valid_new h b n (lenN_firstn n src Hn)) as [Vn Vv].
  assert (Hne : forall q, bo_ptr (mkBm n (Some (length h))) = Some q -> nth_error h2 q = nth_error (h ++ [Some b]) q).
  { cbn. intros q [= <-]. apply K. intro E. apply (valid_ptr_lt h this (length h) Vt) in E. lia. }
  destruct (valid_other _ h2 _ Hne Vn) as [V2 Vv2].
  exists h2, (mkBm n (Some (length h))). split; [exact (set_data_unfold _ _ _ _ _ _ _ FD F)|]. split; [exact V2|]. split; [rewrite Vv2; exact Vv|].
  split; [reflexivity|]. split; [rewrite L, app_length; cbn; lia|].
  intros q Hq Hlt. rewrite (K q Hq). apply nth_error_alloc. exact Hlt.
Qed.

Lemma set_self_spec h this n b :
  valid h this -> bm_value h this = Ok b -> n <= bo_len this ->
  exists h2 o', bm_set_data h this n (SrcBlock (bo_ptr this)) = Ok (h2, o') /\ valid h2 o' /\ bm_value h2 o' = Ok (firstn (N.to_nat n) b) /\
    bo_ptr o' = Some (length h) /\ length h2 = S (length h) /\
    (forall q, bo_ptr this <> Some q -> (q < length h)%nat -> nth_error h2 q = nth_error h q).
Proof.
  intros Vt Hb Hn. pose proof (valid_value h this Vt) as (b' & Hb' & Hl). rewrite Hb in Hb'. injection Hb' as <-.
  assert (FD : from_data h n (SrcBlock (bo_ptr this)) = Ok (h ++ [Some (firstn (N.to_nat n) b)], mkBm n (Some (length h)))).
  { unfold from_data, src_bytes. unfold valid in Vt. unfold bm_value in Hb. destruct (bo_ptr this) as [p|].
    - destruct Vt as (b0 & Hnth & Hl0). unfold h_read in *. rewrite Hnth in *. cbn [bind] in *.
      rewrite <- Hl0, N.leb_refl, firstn_all_N in Hb. injection Hb as <-. replace (n <=? lenN b0) with true by lia. reflexivity.
    - rewrite Vt in *. assert (n = 0) by lia. subst n. cbn. injection Hb as <-. reflexivity. }
  set (bb := firstn (N.to_nat n) b) in *.
  destruct (valid_alloc h (Some bb) this Vt) as [Vt' _].
  destruct (free_valid _ _ Vt') as (h2 & F & L & K).
  destruct (valid_new h bb n (lenN_firstn n b ltac:(lia))) as [Vn Vv].
  assert (Hne : forall q, bo_ptr (mkBm n (Some (length h))) = Some q -> nth_error h2 q = nth_error (h ++ [Some bb]) q).
  { cbn. intros q [= <-]. apply K. intro E. apply (valid_ptr_lt h this (length h) Vt) in E. lia. }
  destruct (valid_other _ h2 _ Hne Vn) as [V2 Vv2].
  exists h2, (mkBm n (Some (length h))). split; [exact (set_data_unfold _ _ _ _ _ _ _ FD F)|]. split; [exact V2|]. split; [rewrite Vv2; exact Vv|].
  split; [reflexivity|]. split; [rewrite L, app_length; cbn; lia|].
  intros q Hq Hlt. rewrite (K q Hq). apply nth_error_alloc. exact Hlt.
Qed.

(* ------------------------------------------------------------------ refinement: heap interpretation vs pure values *)
Definition obj_of (x : hval) : option bmobj :=
  match x with HBitmap o => Some o | HRecord _ o => Some o | _ => None end.
Definition ptr_of (x : option hval) : option nat :=
  match x with Some y => match obj_of y with Some o => bo_ptr o | None => None end | None => None end.

Definition Rel (h : heap) (e : env hval) (ep : env pval) : Prop :=
  (forall v, match e_get e v, e_get ep v with
             | None, None => True
             | Some x, Some pv => h_value h x = Ok pv /\ (forall o, obj_of x = Some o -> valid h o)
             | _, _ => False
             end) /\
  (forall v w p, v <> w -> ptr_of (e_get e v) = Some p -> ptr_of (e_get e w) <> Some p).

Lemma e_get_set_same {A} : forall (e : env A) v x, e_get (e_set e v x) v = x.
Proof.
  intros e v; revert e; induction v as [|v IH]; intros e x; destruct e as [|y e]; cbn; auto.
  - unfold e_get in *. cbn. apply (IH [] x).
  - unfold e_get in *. cbn. apply (IH e x).
Qed.
Lemma e_get_nil {A} v : @e_get A [] v = None.
Proof. unfold e_get. destruct v; reflexivity. Qed.
Lemma e_get_set_other {A} : forall (e : env A) v w x, v <> w -> e_get (e_set e v x) w = e_get e w.
Proof.
  intros e v; revert e; induction v as [|v IH]; intros e w x H; destruct e as [|y e]; destruct w as [|w]; cbn; try congruence; auto.
  - unfold e_get. cbn. destruct w; reflexivity.
  - unfold e_get in *. cbn. rewrite (IH [] w x) by congruence. destruct w; reflexivity.
  - unfold e_get in *. cbn. apply (IH e w x). congruence.
Qed.

Lemma h_value_other h h' x : (forall o q, obj_of x = Some o -> bo_ptr o = Some q -> nth_error h' q = nth_error h q) ->
  (forall o, obj_of x = Some o -> valid h o) ->
  h_value h' x = h_value h x /\ (forall o, obj_of x = Some o -> valid h' o).
Proof.
  intros K V. destruct x as [o|r o|m|q|s]; cbn [h_value obj_of] in *; try (split; [reflexivity|intros ? [=]]).
  - destruct (valid_other h h' o (fun q E => K o q eq_refl E) (V o eq_refl)) as [A B]. rewrite B. split; [reflexivity|intros ? [= <-]; exact A].
  - destruct (valid_other h h' o (fun q E => K o q eq_refl E) (V o eq_refl)) as [A B]. rewrite B. split; [reflexivity|intros ? [= <-]; exact A].
Qed.

(* the variable v receives a freshly allocated object (pointer = old heap length); the block previously owned by v, if
   any, may have been released; every other block below the old heap length is unchanged *)
Lemma rel_update h e ep v h2 newx pv :
  Rel h e ep ->
  (forall q, ptr_of (e_get e v) <> Some q -> (q < length h)%nat -> nth_error h2 q = nth_error h q) ->
  h_value h2 newx = Ok pv -> (forall o, obj_of newx = Some o -> valid h2 o /\ forall p, bo_ptr o = Some p -> (length h <= p)%nat) ->
  Rel h2 (e_set e v (Some newx)) (e_set ep v (Some pv)).
Proof.
  intros [R1 R2] K Hv Ho. split.
  - intro w. destruct (Nat.eq_dec v w) as [<-|Hne].
    + rewrite !e_get_set_same. split; [exact Hv|]. intros o E. apply Ho, E.
    + rewrite !e_get_set_other by exact Hne. specialize (R1 w).
      destruct (e_get e w) as [y|] eqn:Ey, (e_get ep w) as [pw|]; try exact R1. destruct R1 as [A B].
      destruct (h_value_other h h2 y) as [C D]; [|exact B|rewrite C; split; assumption].
      intros o q Eo Eq. apply K.
      * intro Hp. apply (R2 v w q Hne Hp). unfold ptr_of. rewrite Ey, Eo. exact Eq.
      * apply (valid_ptr_lt h o q (B o Eo) Eq).
  - intros a b p Hab Ha. destruct (Nat.eq_dec v a) as [<-|Hva].
    + rewrite e_get_set_same in Ha. rewrite e_get_set_other by exact Hab.
      unfold ptr_of in Ha. destruct (obj_of newx) as [o|] eqn:Eo; [|discriminate].
      destruct (Ho o eq_refl) as [_ Hp]. specialize (Hp p Ha).
      intro Hb. specialize (R1 b). unfold ptr_of in Hb. destruct (e_get e b) as [y|]; [|discriminate].
      destruct (obj_of y) as [oy|] eqn:Ey; [|discriminate]. destruct (e_get ep b); [|destruct R1].
      destruct R1 as [_ B]. pose proof (valid_ptr_lt h oy p (B oy eq_refl) Hb). lia.
    + rewrite e_get_set_other in Ha by exact Hva. destruct (Nat.eq_dec v b) as [<-|Hvb].
      * rewrite e_get_set_same. unfold ptr_of. destruct (obj_of newx) as [o|] eqn:Eo; [|discriminate].
        destruct (Ho o eq_refl) as [_ Hp]. intro Hb. specialize (Hp p Hb).
        specialize (R1 a). unfold ptr_of in Ha. destruct (e_get e a) as [y|]; [|discriminate].
        destruct (obj_of y) as [oy|] eqn:Ey; [|discriminate]. destruct (e_get ep a); [|destruct R1].
        destruct R1 as [_ B]. pose proof (valid_ptr_lt h oy p (B oy eq_refl) Ha). lia.
      * rewrite e_get_set_other by exact Hvb. apply (R2 a b p Hab Ha).
Qed.

(* v is removed (its block, if any, released) or v's value is replaced by one that owns no block *)
Lemma rel_drop h e ep v h2 newx :
  Rel h e ep ->
  (forall q, ptr_of (e_get e v) <> Some q -> nth_error h2 q = nth_error h q) ->
  match newx with
  | None => True
  | Some (x, pv) => obj_of x = None /\ h_value h2 x = Ok pv
  end ->
  Rel h2 (e_set e v (option_map fst newx)) (e_set ep v (option_map snd newx)).
Proof.
  intros [R1 R2] K Hn. split.
  - intro w. destruct (Nat.eq_dec v w) as [<-|Hne].
    + rewrite !e_get_set_same. destruct newx as [[x pv]|]; cbn; [|exact I]. destruct Hn as [A B]. split; [exact B|]. intros o E. congruence.
    + rewrite !e_get_set_other by exact Hne. specialize (R1 w).
      destruct (e_get e w) as [y|] eqn:Ey, (e_get ep w) as [pw|]; try exact R1. destruct R1 as [A B].
      destruct (h_value_other h h2 y) as [C D]; [|exact B|rewrite C; split; assumption].
      intros o q Eo Eq. apply K. intro Hp. apply (R2 v w q Hne Hp). unfold ptr_of. rewrite Ey, Eo. exact Eq.
  - intros a b p Hab Ha. destruct (Nat.eq_dec v a) as [<-|Hva].
    + rewrite e_get_set_same in Ha. destruct newx as [[x pv]|]; cbn in Ha; [|discriminate]. destruct Hn as [A _]. unfold ptr_of in Ha. rewrite A in Ha. discriminate.
    + rewrite e_get_set_other in Ha by exact Hva. destruct (Nat.eq_dec v b) as [<-|Hvb].
      * rewrite e_get_set_same. destruct newx as [[x pv]|]; cbn; [|discriminate]. destruct Hn as [A _]. unfold ptr_of. rewrite A. discriminate.
      * rewrite e_get_set_other by exact Hvb. apply (R2 a b p Hab Ha).
Qed.

Lemma rel_some h e ep v x : Rel h e ep -> e_get e v = Some x ->
  exists pv, e_get ep v = Some pv /\ h_value h x = Ok pv /\ (forall o, obj_of x = Some o -> valid h o).
Proof. intros [R1 _] E. specialize (R1 v). rewrite E in R1. destruct (e_get ep v) as [pv|]; [|destruct R1]. exists pv. tauto. Qed.
Lemma rel_none h e ep v : Rel h e ep -> e_get e v = None -> e_get ep v = None.
Proof. intros [R1 _] E. specialize (R1 v). rewrite E in R1. destruct (e_get ep v); [destruct R1|reflexivity]. Qed.

Lemma hv_bitmap h o pv : h_value h (HBitmap o) = Ok pv -> exists b, bm_value h o = Ok b /\ pv = PBitmap b.
Proof. cbn. destruct (bm_value h o) as [b| | |]; cbn; try discriminate. intros [= <-]. eauto. Qed.
Lemma hv_record h r o pv : h_value h (HRecord r o) = Ok pv -> exists b, bm_value h o = Ok b /\ pv = PRecordV (set_bitmap b r).
Proof. cbn. destruct (bm_value h o) as [b| | |]; cbn; try discriminate. intros [= <-]. eauto. Qed.

Lemma hv_bitmap_intro h o b : bm_value h o = Ok b -> h_value h (HBitmap o) = Ok (PBitmap b).
Proof. intro H. cbn. rewrite H. reflexivity. Qed.
Lemma hv_record_intro h r o b : bm_value h o = Ok b -> h_value h (HRecord r o) = Ok (PRecordV (set_bitmap b r)).
Proof. intro H. cbn. rewrite H. reflexivity. Qed.

Lemma valid_bm_new h : valid h bm_new /\ bm_value h bm_new = Ok [].
Proof. split; reflexivity. Qed.

Definition Step (h : heap) (e : env hval) (ep : env pval) (o : vop) : Prop :=
  exists h' e' ep' out, h_step (h, e) o = Ok ((h', e'), out) /\ p_step ep o = (ep', out) /\ Rel h' e' ep'.

Lemma step_err h e ep o : Rel h e ep -> h_step (h, e) o = Ok ((h, e), VOError) -> p_step ep o = (ep, VOError) -> Step h e ep o.
Proof. intros R A B. exists h, e, ep, VOError. auto. Qed.

Lemma rel_same h e ep v x pv : Rel h e ep -> e_get e v = Some x -> e_get ep v = Some pv ->
  forall x' pv', obj_of x' = None -> obj_of x = None -> h_value h x' = Ok pv' ->
  Rel h (e_set e v (Some x')) (e_set ep v (Some pv')).
Proof.
  intros R Ex Ep x' pv' O' O Hv.
  apply (rel_drop h e ep v h (Some (x', pv')) R); [reflexivity|]. split; assumption.
Qed.

Theorem step_refines h e ep o : Rel h e ep -> Step h e ep o.
Proof.
  intro R. destruct o as [v k|v w|v w|v b|v n|v r|v m|v q|v s|v w|v|v].
  - (* VNew *)
    destruct (e_get e v) as [x|] eqn:Ev.
    + destruct (rel_some h e ep v x R Ev) as (pv & Ep & _). apply step_err; [exact R| |]; cbn [h_step p_step]; rewrite ?Ev, ?Ep; reflexivity.
    + pose proof (rel_none h e ep v R Ev) as Ep.
      eexists h, _, _, VONone. cbn [h_step p_step]. rewrite Ev, Ep. split; [reflexivity|]. split; [reflexivity|].
      apply (rel_update h e ep v h); [exact R|reflexivity| |].
      * destruct k; reflexivity.
      * destruct k; cbn [obj_of]; intros o [= <-] || intros o [=]; (split; [reflexivity|intros p [=]]).
  - (* VCopy *)
    destruct (e_get e v) as [x|] eqn:Ev.
    { destruct (rel_some h e ep v x R Ev) as (pv & Ep & _). apply step_err; [exact R| |]; cbn [h_step p_step]; rewrite ?Ev, ?Ep; reflexivity. }
    pose proof (rel_none h e ep v R Ev) as Ep.
    destruct (e_get e w) as [y|] eqn:Ew.
    2:{ pose proof (rel_none h e ep w R Ew) as Epw. apply step_err; [exact R| |]; cbn [h_step p_step]; rewrite ?Ev, ?Ew, ?Ep, ?Epw; reflexivity. }
    destruct (rel_some h e ep w y R Ew) as (pw & Epw & Hv & Vy).
    destruct y as [o|r o|m|q|s].
    + destruct (hv_bitmap h o pw Hv) as (b & Hb & ->).
      pose proof (from_data_obj h o b (Vy o eq_refl) Hb) as FD.
      pose proof (valid_value h o (Vy o eq_refl)) as (b' & Hb' & Hl). rewrite Hb in Hb'. injection Hb' as <-.
      destruct (valid_new h b (bo_len o) Hl) as [Vn Vv].
      eexists _, _, _, VONone. cbn [h_step p_step]. rewrite Ev, Ew, Ep, Epw. unfold bm_copy. rewrite FD. cbn [bind].
      split; [reflexivity|]. split; [reflexivity|].
      apply (rel_update h e ep v); [exact R| | |].
      * intros q _ Hq. apply nth_error_alloc, Hq.
      * apply hv_bitmap_intro, Vv.
      * cbn [obj_of]. intros o0 [= <-]. split; [exact Vn|]. cbn. intros p [= <-]. lia.
    + destruct (hv_record h r o pw Hv) as (b & Hb & ->).
      destruct (assign_spec h bm_new o b (proj1 (valid_bm_new h)) (Vy o eq_refl) Hb) as (h2 & o' & A & V2 & Vv & Pt & L & K).
      eexists _, _, _, VONone. cbn [h_step p_step]. rewrite Ev, Ew, Ep, Epw, A. cbn [bind].
      split; [reflexivity|]. split; [reflexivity|].
      apply (rel_update h e ep v); [exact R| | |].
      * intros q _ Hq. apply K; [discriminate|exact Hq].
      * apply hv_record_intro, Vv.
      * cbn [obj_of]. intros o0 [= <-]. split; [exact V2|]. rewrite Pt. intros p [= <-]. lia.
    + eexists h, _, _, VONone. cbn [h_step p_step]. rewrite Ev, Ew, Ep, Epw. split; [reflexivity|]. split; [reflexivity|].
      apply (rel_update h e ep v h); [exact R|reflexivity|exact Hv|]. intros o [=].
    + eexists h, _, _, VONone. cbn [h_step p_step]. rewrite Ev, Ew, Ep, Epw. split; [reflexivity|]. split; [reflexivity|].
      apply (rel_update h e ep v h); [exact R|reflexivity|exact Hv|]. intros o [=].
    + eexists h, _, _, VONone. cbn [h_step p_step]. rewrite Ev, Ew, Ep, Epw. split; [reflexivity|]. split; [reflexivity|].
      apply (rel_update h e ep v h); [exact R|reflexivity|exact Hv|]. intros o [=].
  - (* VAssign *)
    destruct (e_get e v) as [x|] eqn:Ev.
    2:{ pose proof (rel_none h e ep v R Ev) as Ep. apply step_err; [exact R| |]; cbn [h_step p_step]; rewrite ?Ev, ?Ep; reflexivity. }
    destruct (rel_some h e ep v x R Ev) as (pv & Ep & Hvx & Vx).
    destruct (e_get e w) as [y|] eqn:Ew.
    2:{ pose proof (rel_none h e ep w R Ew) as Epw. apply step_err; [exact R| |]; cbn [h_step p_step]; rewrite ?Ev, ?Ew, ?Ep, ?Epw; [destruct x|]; reflexivity. }
    destruct (rel_some h e ep w y R Ew) as (pw & Epw & Hvy & Vy).
    destruct x as [a|ra a|mx|qx|sx], y as [o|r o|m|q|s];
      try (apply step_err; [exact R| |]; cbn [h_step p_step]; rewrite ?Ev, ?Ew, ?Ep, ?Epw; cbn [h_same_class];
           [reflexivity|];
           repeat match goal with
                  | H : h_value _ (HBitmap _) = Ok _ |- _ => apply hv_bitmap in H as (? & _ & ->)
                  | H : h_value _ (HRecord _ _) = Ok _ |- _ => apply hv_record in H as (? & _ & ->)
                  | H : h_value _ _ = Ok _ |- _ => cbn in H; injection H as <-
                  end; reflexivity).
    + destruct (hv_bitmap h a pv Hvx) as (ba & _ & ->). destruct (hv_bitmap h o pw Hvy) as (b & Hb & ->).
      destruct (assign_spec h a o b (Vx a eq_refl) (Vy o eq_refl) Hb) as (h2 & o' & A & V2 & Vv & Pt & L & K).
      eexists _, _, _, VONone. cbn [h_step p_step]. rewrite Ev, Ew, Ep, Epw, A. cbn [bind p_same_class].
      split; [reflexivity|]. split; [reflexivity|].
      apply (rel_update h e ep v); [exact R| | |].
      * intros q Hq Hlt. apply K; [|exact Hlt]. rewrite Ev in Hq. exact Hq.
      * apply hv_bitmap_intro, Vv.
      * cbn [obj_of]. intros o0 [= <-]. split; [exact V2|]. rewrite Pt. intros p [= <-]. lia.
    + destruct (hv_record h ra a pv Hvx) as (ba & _ & ->). destruct (hv_record h r o pw Hvy) as (b & Hb & ->).
      destruct (assign_spec h a o b (Vx a eq_refl) (Vy o eq_refl) Hb) as (h2 & o' & A & V2 & Vv & Pt & L & K).
      eexists _, _, _, VONone. cbn [h_step p_step]. rewrite Ev, Ew, Ep, Epw, A. cbn [bind p_same_class].
      split; [reflexivity|]. split; [reflexivity|].
      apply (rel_update h e ep v); [exact R| | |].
      * intros q Hq Hlt. apply K; [|exact Hlt]. rewrite Ev in Hq. exact Hq.
      * apply hv_record_intro, Vv.
      * cbn [obj_of]. intros o0 [= <-]. split; [exact V2|]. rewrite Pt. intros p [= <-]. lia.
    + cbn in Hvx, Hvy. injection Hvx as <-. injection Hvy as <-.
      eexists h, _, _, VONone. cbn [h_step p_step]. rewrite Ev, Ew, Ep, Epw. cbn [h_same_class p_same_class]. split; [reflexivity|]. split; [reflexivity|].
      eapply rel_same; eauto.
    + cbn in Hvx, Hvy. injection Hvx as <-. injection Hvy as <-.
      eexists h, _, _, VONone. cbn [h_step p_step]. rewrite Ev, Ew, Ep, Epw. cbn [h_same_class p_same_class]. split; [reflexivity|]. split; [reflexivity|].
      eapply rel_same; eauto.
    + cbn in Hvx, Hvy. injection Hvx as <-. injection Hvy as <-.
      eexists h, _, _, VONone. cbn [h_step p_step]. rewrite Ev, Ew, Ep, Epw. cbn [h_same_class p_same_class]. split; [reflexivity|]. split; [reflexivity|].
      eapply rel_same; eauto.
  - (* VSetBytes *)
    destruct (e_get e v) as [x|] eqn:Ev.
    2:{ pose proof (rel_none h e ep v R Ev) as Ep. apply step_err; [exact R| |]; cbn [h_step p_step]; rewrite ?Ev, ?Ep; reflexivity. }
    destruct (rel_some h e ep v x R Ev) as (pv & Ep & Hvx & Vx).
    destruct x as [a|ra a|mx|qx|sx];
      try (apply step_err; [exact R| |]; cbn [h_step p_step]; rewrite ?Ev, ?Ep; [reflexivity|];
           first [apply hv_record in Hvx as (? & _ & ->) | (cbn in Hvx; injection Hvx as <-)]; reflexivity).
    destruct (hv_bitmap h a pv Hvx) as (ba & _ & ->).
    destruct (lenN b <? 256) eqn:Lb.
    2:{ apply step_err; [exact R| |]; cbn [h_step p_step]; rewrite ?Ev, ?Ep, Lb; reflexivity. }
    destruct (set_bytes_spec h a (lenN b) b (Vx a eq_refl) ltac:(lia)) as (h2 & o' & A & V2 & Vv & Pt & L & K).
    rewrite firstn_all_N in Vv.
    eexists _, _, _, VONone. cbn [h_step p_step]. rewrite Ev, Ep, Lb, A. cbn [bind].
    split; [reflexivity|]. split; [reflexivity|].
    apply (rel_update h e ep v); [exact R| | |].
    + intros q Hq Hlt. apply K; [|exact Hlt]. rewrite Ev in Hq. exact Hq.
    + apply hv_bitmap_intro, Vv.
    + cbn [obj_of]. intros o0 [= <-]. split; [exact V2|]. rewrite Pt. intros p [= <-]. lia.
  - (* VSetSelf *)
    destruct (e_get e v) as [x|] eqn:Ev.
    2:{ pose proof (rel_none h e ep v R Ev) as Ep. apply step_err; [exact R| |]; cbn [h_step p_step]; rewrite ?Ev, ?Ep; reflexivity. }
    destruct (rel_some h e ep v x R Ev) as (pv & Ep & Hvx & Vx).
    destruct x as [a|ra a|mx|qx|sx];
      try (apply step_err; [exact R| |]; cbn [h_step p_step]; rewrite ?Ev, ?Ep; [reflexivity|];
           first [apply hv_record in Hvx as (? & _ & ->) | (cbn in Hvx; injection Hvx as <-)]; reflexivity).
    destruct (hv_bitmap h a pv Hvx) as (ba & Hba & ->).
    pose proof (valid_value h a (Vx a eq_refl)) as (b' & Hb' & Hl). rewrite Hba in Hb'. injection Hb' as <-.
    destruct (n <=? bo_len a) eqn:Ln.
    2:{ apply step_err; [exact R| |]; cbn [h_step p_step]; rewrite ?Ev, ?Ep, ?Ln; [reflexivity|]. rewrite Hl, Ln. reflexivity. }
    destruct (set_self_spec h a n ba (Vx a eq_refl) Hba ltac:(lia)) as (h2 & o' & A & V2 & Vv & Pt & L & K).
    eexists _, _, _, VONone. cbn [h_step p_step]. rewrite Ev, Ep, Ln, A. rewrite Hl, Ln. cbn [bind].
    split; [reflexivity|]. split; [reflexivity|].
    apply (rel_update h e ep v); [exact R| | |].
    + intros q Hq Hlt. apply K; [|exact Hlt]. rewrite Ev in Hq. exact Hq.
    + apply hv_bitmap_intro, Vv.
    + cbn [obj_of]. intros o0 [= <-]. split; [exact V2|]. rewrite Pt. intros p [= <-]. lia.
  - (* VSetRecord *)
    destruct (e_get e v) as [x|] eqn:Ev.
    2:{ pose proof (rel_none h e ep v R Ev) as Ep. apply step_err; [exact R| |]; cbn [h_step p_step]; rewrite ?Ev, ?Ep; reflexivity. }
    destruct (rel_some h e ep v x R Ev) as (pv & Ep & Hvx & Vx).
    destruct x as [a|ra a|mx|qx|sx];
      try (apply step_err; [exact R| |]; cbn [h_step p_step]; rewrite ?Ev, ?Ep; [reflexivity|];
           first [apply hv_bitmap in Hvx as (? & _ & ->) | (cbn in Hvx; injection Hvx as <-)]; reflexivity).
    destruct (hv_record h ra a pv Hvx) as (ba & _ & ->).
    destruct (lenN (r_bitmap r) <? 256) eqn:Lb.
    2:{ apply step_err; [exact R| |]; cbn [h_step p_step]; rewrite ?Ev, ?Ep, Lb; reflexivity. }
    set (bb := r_bitmap r) in *.
    (* the temporary Bitmap *)
    destruct (set_bytes_spec h bm_new (lenN bb) bb (proj1 (valid_bm_new h)) ltac:(lia)) as (h1 & tmp & A1 & V1 & Vv1 & Pt1 & L1 & K1).
    rewrite firstn_all_N in Vv1.
    assert (Va1 : valid h1 a /\ bm_value h1 a = bm_value h a).
    { apply valid_other; [|exact (Vx a eq_refl)]. intros q Eq. apply K1; [discriminate|]. apply (valid_ptr_lt h a q (Vx a eq_refl) Eq). }
    destruct Va1 as [Va1 _].
    (* member = temporary *)
    destruct (assign_spec h1 a tmp bb Va1 V1 Vv1) as (h2 & o' & A2 & V2 & Vv2 & Pt2 & L2 & K2).
    (* the temporary is destroyed *)
    assert (Vt2 : valid h2 tmp).
    { apply (valid_other h1 h2 tmp); [|exact V1]. intros q Eq. apply K2.
      - intro Ea. rewrite Pt1 in Eq. injection Eq as <-. apply (valid_ptr_lt h a (length h) (Vx a eq_refl)) in Ea. lia.
      - rewrite Pt1 in Eq. injection Eq as <-. lia. }
    destruct (free_valid h2 tmp Vt2) as (h3 & F3 & L3 & K3).
    assert (V3 : valid h3 o' /\ bm_value h3 o' = bm_value h2 o').
    { apply valid_other; [|exact V2]. intros q Eq. apply K3. rewrite Pt1. rewrite Pt2 in Eq. injection Eq as <-. intros [= E]. lia. }
    destruct V3 as [V3 Vv3].
    eexists _, _, _, VONone. cbn [h_step p_step]. rewrite Ev, Ep. fold bb. rewrite Lb, A1. cbn [bind]. rewrite A2. cbn [bind].
    unfold bm_destroy. rewrite F3. cbn [bind].
    split; [reflexivity|]. split; [reflexivity|].
    apply (rel_update h e ep v); [exact R| | |].
    + intros q Hq Hlt. rewrite K3 by (rewrite Pt1; intros [= E]; lia).
      rewrite K2; [|rewrite Ev in Hq; exact Hq|lia]. apply K1; [discriminate|exact Hlt].
    + replace (PRecordV r) with (PRecordV (set_bitmap bb r)) by (unfold bb; destruct r; reflexivity).
      apply hv_record_intro. rewrite Vv3. exact Vv2.
    + cbn [obj_of]. intros o0 [= <-]. split; [exact V3|]. rewrite Pt2. intros p [= <-]. lia.
  - (* VSetMessage *)
    destruct (e_get e v) as [x|] eqn:Ev.
    2:{ pose proof (rel_none h e ep v R Ev) as Ep. apply step_err; [exact R| |]; cbn [h_step p_step]; rewrite ?Ev, ?Ep; reflexivity. }
    destruct (rel_some h e ep v x R Ev) as (pv & Ep & Hvx & Vx).
    destruct x as [a|ra a|mx|qx|sx];
      try (apply step_err; [exact R| |]; cbn [h_step p_step]; rewrite ?Ev, ?Ep; [reflexivity|];
           first [apply hv_bitmap in Hvx as (? & _ & ->) | apply hv_record in Hvx as (? & _ & ->) | (cbn in Hvx; injection Hvx as <-)]; reflexivity).
    cbn in Hvx. injection Hvx as <-.
    eexists h, _, _, VONone. cbn [h_step p_step]. rewrite Ev, Ep. split; [reflexivity|]. split; [reflexivity|].
    eapply rel_same; eauto.
  - (* VSetQuery *)
    destruct (e_get e v) as [x|] eqn:Ev.
    2:{ pose proof (rel_none h e ep v R Ev) as Ep. apply step_err; [exact R| |]; cbn [h_step p_step]; rewrite ?Ev, ?Ep; reflexivity. }
    destruct (rel_some h e ep v x R Ev) as (pv & Ep & Hvx & Vx).
    destruct x as [a|ra a|mx|qx|sx];
      try (apply step_err; [exact R| |]; cbn [h_step p_step]; rewrite ?Ev, ?Ep; [reflexivity|];
           first [apply hv_bitmap in Hvx as (? & _ & ->) | apply hv_record in Hvx as (? & _ & ->) | (cbn in Hvx; injection Hvx as <-)]; reflexivity).
    cbn in Hvx. injection Hvx as <-.
    eexists h, _, _, VONone. cbn [h_step p_step]. rewrite Ev, Ep. split; [reflexivity|]. split; [reflexivity|].
    eapply rel_same; eauto.
  - (* VSetService *)
    destruct (e_get e v) as [x|] eqn:Ev.
    2:{ pose proof (rel_none h e ep v R Ev) as Ep. apply step_err; [exact R| |]; cbn [h_step p_step]; rewrite ?Ev, ?Ep; reflexivity. }
    destruct (rel_some h e ep v x R Ev) as (pv & Ep & Hvx & Vx).
    destruct x as [a|ra a|mx|qx|sx];
      try (apply step_err; [exact R| |]; cbn [h_step p_step]; rewrite ?Ev, ?Ep; [reflexivity|];
           first [apply hv_bitmap in Hvx as (? & _ & ->) | apply hv_record in Hvx as (? & _ & ->) | (cbn in Hvx; injection Hvx as <-)]; reflexivity).
    cbn in Hvx. injection Hvx as <-.
    eexists h, _, _, VONone. cbn [h_step p_step]. rewrite Ev, Ep. split; [reflexivity|]. split; [reflexivity|].
    eapply rel_same; eauto.
  - (* VEq *)
    destruct (e_get e v) as [x|] eqn:Ev.
    2:{ pose proof (rel_none h e ep v R Ev) as Ep. apply step_err; [exact R| |]; cbn [h_step p_step]; rewrite ?Ev, ?Ep; reflexivity. }
    destruct (rel_some h e ep v x R Ev) as (pv & Ep & Hvx & Vx).
    destruct (e_get e w) as [y|] eqn:Ew.
    2:{ pose proof (rel_none h e ep w R Ew) as Epw. apply step_err; [exact R| |]; cbn [h_step p_step]; rewrite ?Ev, ?Ew, ?Ep, ?Epw; reflexivity. }
    destruct (rel_some h e ep w y R Ew) as (pw & Epw & Hvy & Vy).
    destruct (p_eq pv pw) as [r|] eqn:PE.
    + exists h, e, ep, (VOEq r). cbn [h_step p_step]. rewrite Ev, Ew, Ep, Epw, Hvx, Hvy. cbn [bind]. rewrite PE. auto.
    + apply step_err; [exact R| |]; cbn [h_step p_step]; rewrite ?Ev, ?Ew, ?Ep, ?Epw, ?Hvx, ?Hvy; cbn [bind]; rewrite PE; reflexivity.
  - (* VGet *)
    destruct (e_get e v) as [x|] eqn:Ev.
    2:{ pose proof (rel_none h e ep v R Ev) as Ep. apply step_err; [exact R| |]; cbn [h_step p_step]; rewrite ?Ev, ?Ep; reflexivity. }
    destruct (rel_some h e ep v x R Ev) as (pv & Ep & Hvx & Vx).
    exists h, e, ep, (VOVal pv). cbn [h_step p_step]. rewrite Ev, Ep, Hvx. auto.
  - (* VDel *)
    destruct (e_get e v) as [x|] eqn:Ev.
    2:{ pose proof (rel_none h e ep v R Ev) as Ep. apply step_err; [exact R| |]; cbn [h_step p_step]; rewrite ?Ev, ?Ep; reflexivity. }
    destruct (rel_some h e ep v x R Ev) as (pv & Ep & Hvx & Vx).
    assert (Obj : forall a, obj_of x = Some a -> exists h', bm_destroy h a = Ok h' /\
                    Rel h' (e_set e v None) (e_set ep v None)).
    { intros a Ea. destruct (free_valid h a (Vx a Ea)) as (h' & F & L & K). exists h'. split; [exact F|].
      apply (rel_drop h e ep v h' None R); [|exact I]. intros q Hq. apply K. rewrite Ev in Hq. unfold ptr_of in Hq. rewrite Ea in Hq. exact Hq. }
    destruct x as [a|ra a|mx|qx|sx].
    + destruct (Obj a eq_refl) as (h' & F & R'). eexists h', _, _, VONone. cbn [h_step p_step]. rewrite Ev, Ep, F. cbn [bind]. auto.
    + destruct (Obj a eq_refl) as (h' & F & R'). eexists h', _, _, VONone. cbn [h_step p_step]. rewrite Ev, Ep, F. cbn [bind]. auto.
    + eexists h, _, _, VONone. cbn [h_step p_step]. rewrite Ev, Ep. split; [reflexivity|]. split; [reflexivity|].
      apply (rel_drop h e ep v h None R); [reflexivity|exact I].
    + eexists h, _, _, VONone. cbn [h_step p_step]. rewrite Ev, Ep. split; [reflexivity|]. split; [reflexivity|].
      apply (rel_drop h e ep v h None R); [reflexivity|exact I].
    + eexists h, _, _, VONone. cbn [h_step p_step]. rewrite Ev, Ep. split; [reflexivity|]. split; [reflexivity|].
      apply (rel_drop h e ep v h None R); [reflexivity|exact I].
Qed.

(* every program: the heap interpretation never faults and prints what the pure value semantics prints *)
Theorem values_refine : forall ops h e ep, Rel h e ep -> h_run (h, e) ops = Ok (p_run ep ops).
Proof.
  induction ops as [|o ops IH]; intros h e ep R; cbn [h_run p_run]; [reflexivity|].
  destruct (step_refines h e ep o R) as (h' & e' & ep' & out & A & B & R').
  rewrite A, B. cbn [bind]. rewrite (IH h' e' ep' R'). reflexivity.
Qed.

Lemma Rel_empty : Rel [] [] [].
Proof.
  split.
  - intro v. rewrite !e_get_nil. exact I.
  - intros v w p _ H. rewrite e_get_nil in H. discriminate.
Qed.

Theorem values_run_pure ops : values_run ops = Ok (values_pure ops).
Proof. apply values_refine, Rel_empty. Qed.
