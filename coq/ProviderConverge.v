(* ProviderConverge.v — C12 at run level: whenever nothing is pending, the provider serves the service that was last
   supplied - its type, port and attributes, under a candidate name-k of the requested name, with the SRV target it last
   learnt from the hostname object. *)
From QV Require Import Base Fields SrcFacts Msg SrcDecisions Cache CacheSpec CacheProofs Sim Prober Hostname HostnameInv Provider ProviderProofs ProviderListener.
From Coq Require Import ZifyBool ZifyNat ZifyN.
Local Open Scope Z_scope.

Definition req_label (s : service) : bytes := replace_byte DOT DASH (bs_data (s_name s)).
Definition req_tail (s : service) : bytes := DOT :: bs_data (s_type s).

(* ghost: the service most recently supplied to the existing provider *)
Definition req_step (g : option service) (c : comp) (ev : event papi) : option service :=
  match ev with
  | EvApi (PUpdate s) => if pv_exists (cp_prov c) then Some s else g
  | EvApi PNewProv => None
  | EvApi PDestroy => if pv_exists (cp_prov c) then None else g
  | _ => g
  end.

Record KInv (c : comp) (g : option service) : Prop := {
  ki_req : forall s, g = Some s -> pv_exists (cp_prov c) = true ->
           pv_initialized (cp_prov c) = true /\
           r_name (pv_srvP (cp_prov c)) = Some (req_label s ++ req_tail s) /\ r_name (pv_ptrP (cp_prov c)) = s_type s /\
           r_port (pv_srvP (cp_prov c)) = s_port s /\ r_attrs (pv_txtP (cp_prov c)) = s_attrs s;
  ki_noreq : pv_exists (cp_prov c) = true -> pv_initialized (cp_prov c) = true -> g <> None;
  ki_conf : pv_exists (cp_prov c) = true -> pv_initialized (cp_prov c) = true -> cp_prober c = None ->
            bs_data (r_target (pv_srvP (cp_prov c))) <> [] -> pv_confirmed (cp_prov c) = true;
  ki_tgt : pv_exists (cp_prov c) = true -> pv_confirmed (cp_prov c) = true -> bs_data (r_target (pv_srvP (cp_prov c))) <> [];
  ki_pub : pv_exists (cp_prov c) = true -> pv_confirmed (cp_prov c) = true -> cp_prober c = None ->
           r_port (pv_srv (cp_prov c)) = r_port (pv_srvP (cp_prov c)) /\ r_attrs (pv_txt (cp_prov c)) = r_attrs (pv_txtP (cp_prov c)) /\
           r_name (pv_ptr (cp_prov c)) = r_name (pv_ptrP (cp_prov c)) /\ r_target (pv_srv (cp_prov c)) = r_target (pv_srvP (cp_prov c)) /\
           exists x ty k, dotfree x /\ r_name (pv_srvP (cp_prov c)) = Some (x ++ DOT :: ty) /\
                          r_name (pv_srv (cp_prov c)) = Some (candidate x (DOT :: ty) k) }.

Lemma on_name_confirmed_fields name p : let p' := fst (on_name_confirmed name p) in
  pv_exists p' = pv_exists p /\ pv_initialized p' = pv_initialized p /\ pv_confirmed p' = true /\
  pv_ptrP p' = pv_ptrP p /\ pv_srvP p' = pv_srvP p /\ pv_txtP p' = pv_txtP p /\
  pv_ptr p' = set_target name (pv_ptrP p) /\ pv_srv p' = set_name name (pv_srvP p) /\ pv_txt p' = set_name name (pv_txtP p).
Proof. unfold on_name_confirmed. destruct (pv_confirmed p) eqn:E; cbn; rewrite ?E; repeat split; reflexivity. Qed.

Lemma prober_handle_none now (c : comp) m :
  cp_prober c = None ->
  fst (match cp_prober c with
       | Some pb => let '(pb', e) := prober_handle now pb (EvMsg m) in (Some pb', e)
       | None => (None, []) end) = None.
Proof. intros ->. reflexivity. Qed.

Lemma hostname_changed_K c g n :
  CInv c [] \/ True -> KInv c g -> (forall pb, cp_prober c = Some pb -> pv_initialized (cp_prov c) = true) ->
  (pv_confirmed (cp_prov c) = true -> pv_initialized (cp_prov c) = true) -> n <> [] ->
  KInv (fst (prov_on_hostname_changed c n)) g.
Proof.
  intros _ K Pi Ci Hn. unfold prov_on_hostname_changed.
  destruct (negb (pv_exists (cp_prov c))) eqn:Ex; [exact K|]. apply negb_false_iff in Ex.
  destruct K as [K1 K0 K2 K3 K4].
  set (p := cp_prov c) in *.
  set (p1 := set_proposed p (pv_browseP p) (pv_ptrP p) (set_target (Some n) (pv_srvP p)) (pv_txtP p)).
  destruct (pv_initialized p1) eqn:In1.
  - unfold confirm. destruct (prober_new (pv_srvP p1)) as [pb' es]. cbn [fst].
    constructor; cbn [cp_host cp_prov cp_prober]; try discriminate.
    + intros s E _. destruct (K1 s E Ex) as (A & B & C & D & F). unfold p1. cbn. auto.
    + intros _ _. apply K0; [exact Ex|exact In1].
    + intros _ _. cbn. exact Hn.
  - cbn [fst]. assert (Cf : pv_confirmed p = false).
    { destruct (pv_confirmed p) eqn:E; [|reflexivity]. specialize (Ci eq_refl). unfold p1 in In1. cbn in In1. congruence. }
    constructor; cbn [cp_host cp_prov cp_prober].
    + intros s E _. destruct (K1 s E Ex) as (A & _). unfold p1 in In1. cbn in In1. congruence.
    + intros _ X. unfold p1 in In1, X. cbn in In1, X. congruence.
    + intros _ X. unfold p1 in In1, X. cbn in In1, X. congruence.
    + intros _ X. unfold p1 in X. cbn in X. congruence.
    + intros _ X. unfold p1 in X. cbn in X. congruence.
Qed.

Lemma with_slot_K : forall es c g L,
  CInv c L -> KInv c g -> silent es -> sig_names_ok es ->
  KInv (fst (with_hostname_slot c es)) g.
Proof.
  induction es as [|e es IH]; intros c g L I K S N; cbn [with_hostname_slot]; [exact K|].
  assert (S' : silent es) by (intros m H; apply S; right; exact H).
  assert (N' : sig_names_ok es) by (intros ob sg n H; apply (N ob sg n); right; exact H).
  assert (Generic : KInv (fst (let '(c2, e2) := with_hostname_slot c es in (c2, e :: e2))) g).
  { specialize (IH c g L I K S' N'). destruct (with_hostname_slot c es) as [c2 e2]. exact IH. }
  destruct e as [m|m|ob sg p|tid ms|tid|rs]; try exact Generic.
  destruct p as [|b|sv|a|r]; try exact Generic.
  destruct b as [n|]; [|exact Generic].
  destruct (sg =? SIG_hostnameChanged)%N eqn:E; [|exact Generic].
  assert (Hn : n <> []) by (apply (N ob sg n); [left; reflexivity|exact E]).
  destruct (hostname_changed_inv c L n I Hn) as [K1 _].
  pose proof (hostname_changed_K c g n (or_intror Logic.I) K
                (fun pb E0 => proj1 (proj2 (ci_prober _ _ I pb E0))) (ci_conf_init _ _ I) Hn) as K2.
  destruct (prov_on_hostname_changed c n) as [c1 e1]. cbn [fst snd] in *.
  specialize (IH c1 g (listen L e1) K1 K2 S' N'). destruct (with_hostname_slot c1 es) as [c2 e2]. exact IH.
Qed.

Lemma prov_update_K c s g L :
  CInv c L -> KInv c g -> pv_exists (cp_prov c) = true -> KInv (fst (prov_update c s)) (Some s).
Proof.
  intros I K Ex. destruct K as [K1 K0 K2 K3 K4]. destruct I as [Ih Psh Pn Sv Un Pr Ci]. rewrite prov_update_eq. unfold prov_update_old.
  set (p := set_prov (cp_prov c) true (pv_confirmed (cp_prov c))).
  set (sname := replace_byte DOT DASH (bs_data (s_name s))).
  set (fq := sname ++ [DOT] ++ bs_data (s_type s)).
  set (p1 := set_proposed p _ _ _ _).
  assert (Hp1 : pv_exists p1 = true /\ pv_initialized p1 = true /\ pv_confirmed p1 = pv_confirmed (cp_prov c) /\
                pv_ptr p1 = pv_ptr (cp_prov c) /\ pv_srv p1 = pv_srv (cp_prov c) /\ pv_txt p1 = pv_txt (cp_prov c))
    by (unfold p1, p; cbn; repeat split; auto).
  destruct Hp1 as (E1 & E2 & E3 & E4 & E5 & E6).
  assert (Nm : r_name (pv_srvP p1) = Some fq /\ r_name (pv_ptrP p1) = s_type s /\ r_port (pv_srvP p1) = s_port s /\ r_attrs (pv_txtP p1) = s_attrs s).
  { unfold p1, p. cbn [pv_ptrP pv_srvP pv_txtP set_proposed set_prov]. destruct (h_reg (cp_host c)); cbn; repeat split; reflexivity. }
  destruct Nm as (Nm1 & Nm2 & Nm3 & Nm4).
  assert (Req : forall p', pv_initialized p' = true -> pv_ptrP p' = pv_ptrP p1 -> pv_srvP p' = pv_srvP p1 -> pv_txtP p' = pv_txtP p1 ->
            forall s0, Some s = Some s0 -> pv_exists p' = true ->
            pv_initialized p' = true /\ r_name (pv_srvP p') = Some (req_label s0 ++ req_tail s0) /\ r_name (pv_ptrP p') = s_type s0 /\
            r_port (pv_srvP p') = s_port s0 /\ r_attrs (pv_txtP p') = s_attrs s0).
  { intros p' A B C D s0 E _. injection E as <-. rewrite B, C, D, Nm1, Nm2, Nm3, Nm4. repeat split; auto. }
  assert (TgOld : forall pb, cp_prober c = Some pb -> bs_data (r_target (pv_srvP p1)) <> []).
  { intros pb E. destruct (Pr pb E) as (_ & _ & _ & T). unfold p1, p. cbn [pv_srvP set_proposed set_prov].
    destruct (h_reg (cp_host c)); cbn; [exact Ih|exact T]. }
  assert (TgConf : pv_confirmed (cp_prov c) = true -> bs_data (r_target (pv_srvP p1)) <> []).
  { intro Cf. specialize (K3 Ex Cf). unfold p1, p. cbn [pv_srvP set_proposed set_prov]. destruct (h_reg (cp_host c)); cbn; [exact Ih|exact K3]. }
  destruct (negb (match bs_data (r_target (pv_srvP p1)) with [] => true | _ :: _ => false end)) eqn:TgE.
  2:{ assert (T0 : bs_data (r_target (pv_srvP p1)) = []) by (destruct (bs_data (r_target (pv_srvP p1))); [reflexivity|discriminate]).
      cbn [fst]. constructor; cbn [cp_host cp_prov cp_prober].
      - apply Req; reflexivity.
      - discriminate.
      - intros _ _ _ X. congruence.
      - intros _ X. rewrite E3 in X. specialize (TgConf X). congruence.
      - intros _ X. rewrite E3 in X. specialize (TgConf X). congruence. }
  assert (TgN : bs_data (r_target (pv_srvP p1)) <> []) by (destruct (bs_data (r_target (pv_srvP p1))); discriminate).
  destruct (negb (pv_confirmed p1) || negb (bs_eqb (Some fq) (r_name (pv_srv p1)))) eqn:Br.
  - unfold confirm. destruct (prober_new (pv_srvP p1)) as [pb' es]. cbn [fst].
    constructor; cbn [cp_host cp_prov cp_prober]; try discriminate.
    + apply Req; reflexivity.
    + intros _ _. exact TgN.
  - apply orb_false_iff in Br as [Cf Sn]. apply negb_false_iff in Cf, Sn.
    destruct (match cp_prober c with Some pb => bytes_eqb (pb_base pb ++ pb_tail pb) fq | None => false end) eqn:Pend.
    + destruct (cp_prober c) as [pb|] eqn:Epb; [|discriminate]. cbn [fst].
      constructor; cbn [cp_host cp_prov cp_prober]; try discriminate.
      * apply Req; reflexivity.
      * intros _ _. exact TgN.
    + assert (X : let '(p2, e2) := (if bs_eqb (r_target (pv_srvP p1)) (r_target (pv_srv p1)) then (p1, []) else farewell p1) in
                  pv_ptrP p2 = pv_ptrP p1 /\ pv_srvP p2 = pv_srvP p1 /\ pv_txtP p2 = pv_txtP p1 /\
                  pv_exists p2 = true /\ pv_initialized p2 = true /\ pv_confirmed p2 = true).
      { destruct (bs_eqb (r_target (pv_srvP p1)) (r_target (pv_srv p1))); [repeat split; auto|].
        change (farewell p1) with (fst (farewell p1), snd (farewell p1)). cbv iota beta. cbn. repeat split; auto. }
      destruct (if bs_eqb (r_target (pv_srvP p1)) (r_target (pv_srv p1)) then (p1, []) else farewell p1) as [p2 e2].
      destruct X as (X1 & X2 & X3 & X4 & X5 & X6).
      pose proof (publish_state p2) as PS. destruct (publish p2) as [p3 e3]. cbn [fst snd] in *.
      destruct PS as (Y1 & Y2 & Y3 & Y4 & Y5 & Y6 & Y7 & Y8 & Y9).
      constructor; cbn [cp_host cp_prov cp_prober].
      * apply Req; congruence.
      * discriminate.
      * intros _ _ _ _. congruence.
      * intros _ _. rewrite Y5, X2. exact TgN.
      * intros _ _ _. rewrite Y7, Y8, Y9, Y4, Y5, Y6. repeat split; try reflexivity.
        exists sname, (bs_data (s_type s)), 1%N. rewrite X2, Nm1. split; [apply replace_dotfree|]. split; reflexivity.
Qed.

Theorem comp_step_K now c ev g L :
  CInv c L -> KInv c g -> one_provider c ev -> KInv (fst (comp_handle now c ev)) (req_step g c ev).
Proof.
  intros I K One. destruct ev as [m|tid|a]; cbn [comp_handle req_step].
  - (* a message: the provider's records and proposals do not change; a pending prober stays pending *)
    destruct (host_handle now (cp_host c) (EvMsg m)) as [h1 e1].
    assert (P3 : cp_prober c = None ->
                 fst (match cp_prober c with
                      | Some pb => let '(pb', e) := prober_handle now pb (EvMsg m) in (Some pb', e)
                      | None => (None, []) end) = None) by (intros ->; reflexivity).
    assert (P4 : fst (match cp_prober c with
                      | Some pb => let '(pb', e) := prober_handle now pb (EvMsg m) in (Some pb', e)
                      | None => (None, []) end) = None -> cp_prober c = None).
    { destruct (cp_prober c) as [pb|]; [|reflexivity]. destruct (prober_handle now pb (EvMsg m)) as [pb' e]. discriminate. }
    destruct (match cp_prober c with Some pb => _ | None => (None, []) end) as [pb e3]. cbn [fst snd] in *.
    destruct K as [K1 K0 K2 K3 K4]. constructor; cbn [cp_host cp_prov cp_prober]; auto.
  - destruct (tid =? T_PROBER)%N.
    + destruct (cp_prober c) as [pb|] eqn:Ep; [|exact K].
      destruct (ci_prober _ _ I pb Ep) as (Ex & In_ & (B1 & B2 & B3 & B4) & Tg).
      pose proof (on_name_confirmed_fields (r_name (pb_proposed pb)) (cp_prov c)) as F. cbv zeta in F.
      destruct (on_name_confirmed (r_name (pb_proposed pb)) (cp_prov c)) as [p' es]. cbn [fst] in *.
      destruct F as (F1 & F2 & F3 & F4 & F5 & F6 & F7 & F8 & F9). destruct K as [K1 K0 K2 K3 K4].
      constructor; cbn [cp_host cp_prov cp_prober].
      * intros s E _. rewrite F2, F4, F5, F6. apply (K1 s E Ex).
      * intros _ _. apply K0; assumption.
      * intros _ _ _ _. exact F3.
      * intros _ _. rewrite F5. exact Tg.
      * intros _ _ _. rewrite F7, F8, F9, F4, F5, F6. cbn [r_port r_attrs r_name r_target set_name set_target]. repeat split; try reflexivity.
        exists (pb_base pb), (bs_data (r_name (pv_ptrP (cp_prov c)))), (pb_suffix pb). rewrite B4, B3, B2. auto.
    + pose proof (host_handle_silent now (cp_host c) (EvTimer tid)) as S1.
      pose proof (host_handle_name now (cp_host c) (EvTimer tid) (ci_host _ _ I)) as N1.
      pose proof (host_handle_sigs now (cp_host c) (EvTimer tid) (ci_host _ _ I)) as G1.
      destruct (host_handle now (cp_host c) (EvTimer tid)) as [h1 e1]. cbn [fst snd] in *.
      apply (with_slot_K e1 (mkComp h1 (cp_prov c) (cp_prober c)) g L (CInv_host c L h1 I N1)); [|exact S1|exact G1].
      destruct K as [K1 K0 K2 K3 K4]. constructor; cbn [cp_host cp_prov cp_prober]; assumption.
  - destruct a as [| |s|].
    + exact K.
    + cbn [fst]. constructor; cbn [cp_host cp_prov cp_prober]; try discriminate;
        destruct (h_reg (cp_host c)); cbn; try discriminate; intros; discriminate.
    + destruct (pv_exists (cp_prov c)) eqn:Ex; [apply (prov_update_K c s g L); assumption|exact K].
    + destruct (pv_exists (cp_prov c)) eqn:Ex; [|exact K].
      destruct (if pv_confirmed (cp_prov c) then farewell (cp_prov c) else (cp_prov c, [])) as [p' es]. cbn [fst].
      constructor; cbn [cp_host cp_prov cp_prober pv_exists]; discriminate.
Qed.

(* reachable states with both ghosts *)
Inductive kreach12 : comp -> list record -> option service -> Prop :=
| k12_init local ifs : kreach12 (mkComp (fst (on_rebroadcast (mkHost local ifs [] [] false 1))) no_prov None) [] None
| k12_step c L g now ev : kreach12 c L g -> one_provider c ev ->
    kreach12 (fst (comp_handle now c ev)) (listen L (snd (comp_handle now c ev))) (req_step g c ev).

Lemma kreach12_lreach c L g : kreach12 c L g -> lreach c L.
Proof. induction 1; [constructor|apply lr_step; assumption]. Qed.

Theorem kreach12_inv c L g : kreach12 c L g -> KInv c g.
Proof.
  induction 1 as [local ifs|c L g now ev R IH One]; [constructor; cbn; discriminate|].
  apply (comp_step_K now c ev g L); [apply lreach_inv, (kreach12_lreach _ _ _ R)|exact IH|exact One].
Qed.

(* C12: nothing pending, a target known: the served records are those of the last supplied service *)
Theorem quiescent_serves_last_request c L g s :
  kreach12 c L g -> g = Some s -> pv_exists (cp_prov c) = true -> cp_prober c = None ->
  bs_data (r_target (pv_srvP (cp_prov c))) <> [] ->
  pv_confirmed (cp_prov c) = true /\
  r_name (pv_ptr (cp_prov c)) = s_type s /\ r_port (pv_srv (cp_prov c)) = s_port s /\ r_attrs (pv_txt (cp_prov c)) = s_attrs s /\
  r_target (pv_srv (cp_prov c)) = r_target (pv_srvP (cp_prov c)) /\
  (exists k, r_name (pv_srv (cp_prov c)) = Some (candidate (req_label s) (req_tail s) k)) /\
  r_name (pv_txt (cp_prov c)) = r_name (pv_srv (cp_prov c)) /\ r_target (pv_ptr (cp_prov c)) = r_name (pv_srv (cp_prov c)) /\
  L = [pv_ptr (cp_prov c); pv_srv (cp_prov c); pv_txt (cp_prov c)].
Proof.
  intros R Eg Ex Np Tg. pose proof (kreach12_inv _ _ _ R) as K. pose proof (lreach_inv _ _ (kreach12_lreach _ _ _ R)) as I.
  destruct (ki_req _ _ K s Eg Ex) as (In_ & Q1 & Q2 & Q3 & Q4).
  pose proof (ki_conf _ _ K Ex In_ Np Tg) as Cf. split; [exact Cf|].
  destruct (ki_pub _ _ K Ex Cf Np) as (P1 & P2 & P3 & P4 & x & ty & k & Dx & P5 & P6).
  destruct (ci_served _ _ I Ex Cf) as (_ & _ & (N1 & N2 & _) & _ & HL).
  rewrite P3, Q2, P1, Q3, P2, Q4. repeat split; auto.
  exists k. rewrite P6. rewrite Q1 in P5. injection P5 as P5. unfold req_tail in P5.
  destruct (split_unique _ _ _ _ (replace_dotfree _) Dx P5) as [<- <-]. reflexivity.
Qed.

(* ---- C10: the provider is mute until it has confirmed a name, and confirmed means verified ---- *)
Lemma with_slot_silent : forall es c, silent es -> silent (snd (with_hostname_slot c es)).
Proof.
  induction es as [|e es IH]; intros c S; cbn [with_hostname_slot]; [apply silent_nil|].
  assert (S' : silent es) by (intros m H; apply S; right; exact H).
  assert (Generic : forall c0, silent (snd (let '(c2, e2) := with_hostname_slot c0 es in (c2, e :: e2)))).
  { intro c0. specialize (IH c0 S'). destruct (with_hostname_slot c0 es) as [c2 e2]. cbn [snd] in *.
    intros m [H|H]; [apply S; left; exact H|apply IH, H]. }
  destruct e as [m|m|ob sg p|tid ms|tid|rs]; try apply Generic.
  destruct p as [|b|sv|a|r]; try apply Generic. destruct b as [n|]; [|apply Generic].
  destruct (sg =? SIG_hostnameChanged)%N; [|apply Generic].
  assert (H1 : silent (snd (prov_on_hostname_changed c n))).
  { unfold prov_on_hostname_changed. destruct (negb (pv_exists (cp_prov c))); [apply silent_nil|].
    match goal with |- context [if pv_initialized ?p1 then _ else _] => destruct (pv_initialized p1) end; [|apply silent_nil].
    match goal with |- context [confirm ?p1 ?pb] => pose proof (confirm_silent p1 pb) as CS; destruct (confirm p1 pb) as [pb' es'] end. exact CS. }
  destruct (prov_on_hostname_changed c n) as [c1 e1]. specialize (IH c1 S'). destruct (with_hostname_slot c1 es) as [c2 e2]. cbn [snd] in *.
  intros m [H|H]; [discriminate|]. apply in_app_iff in H as [H|H]; [apply H1, H|apply IH, H].
Qed.

(* a handler invocation that neither starts nor ends with a confirmed provider multicasts no response at all *)
Theorem unconfirmed_is_mute now c ev :
  pv_confirmed (cp_prov c) = false -> pv_confirmed (cp_prov (fst (comp_handle now c ev))) = false ->
  silent (snd (comp_handle now c ev)).
Proof.
  intros C0 C1. destruct ev as [m|tid|a]; cbn [comp_handle] in *.
  - pose proof (host_handle_silent now (cp_host c) (EvMsg m)) as S1. destruct (host_handle now (cp_host c) (EvMsg m)) as [h1 e1].
    assert (S3 : silent (snd (match cp_prober c with
                              | Some pb => let '(pb', e) := prober_handle now pb (EvMsg m) in (Some pb', e)
                              | None => (None, []) end))).
    { destruct (cp_prober c) as [pb|]; [|apply silent_nil]. cbn [prober_handle].
      unfold prober_ignore_message in *. destruct (pb_confirmed pb || negb (m_response m)); [apply silent_nil|].
      pose proof (on_records_silent (m_records m) pb) as S. destruct (on_records (m_records m) pb) as [pb' e]. exact S. }
    destruct (match cp_prober c with Some pb => _ | None => (None, []) end) as [pb e3]. cbn [fst snd] in *.
    apply silent_app; [exact S1|]. apply silent_app; [|exact S3].
    destruct (pv_exists (cp_prov c)); [apply prov_on_message_silent|apply silent_nil].
  - destruct (tid =? T_PROBER)%N.
    + destruct (cp_prober c) as [pb|]; [|apply silent_nil]. exfalso.
      pose proof (on_name_confirmed_fields (r_name (pb_proposed pb)) (cp_prov c)) as F. cbv zeta in F.
      destruct (on_name_confirmed (r_name (pb_proposed pb)) (cp_prov c)) as [p' es]. cbn [fst cp_prov] in *.
      destruct F as (_ & _ & F3 & _). congruence.
    + pose proof (host_handle_silent now (cp_host c) (EvTimer tid)) as S1.
      destruct (host_handle now (cp_host c) (EvTimer tid)) as [h1 e1]. cbn [fst snd] in *. apply with_slot_silent, S1.
  - destruct a as [| |s|]; try apply silent_nil.
    + destruct (pv_exists (cp_prov c)); [|apply silent_nil]. rewrite prov_update_eq in *. unfold prov_update_old in *.
      set (p := set_prov (cp_prov c) true (pv_confirmed (cp_prov c))) in *.
      match goal with |- context [if negb (match bs_data (r_target (pv_srvP ?q)) with [] => true | _ :: _ => false end) then _ else _] => set (p1 := q) in * end.
      destruct (negb (match bs_data (r_target (pv_srvP p1)) with [] => true | _ :: _ => false end)); [|apply silent_nil].
      assert (E : pv_confirmed p1 = false) by (unfold p1, p; cbn; exact C0).
      rewrite E. cbn [negb orb].
      pose proof (confirm_silent p1 (cp_prober c)) as CS. destruct (confirm p1 (cp_prober c)) as [pb es]. exact CS.
    + destruct (pv_exists (cp_prov c)); [|apply silent_nil]. rewrite C0. cbn [fst snd app].
      destruct (cp_prober c); [intros m [H|[]]; discriminate|apply silent_nil].
Qed.
