(* ResolverAccept.v — refinement: the acceptor written from the text of C16 (Resolver.mon_resolver, with its own
   reference RFC 6762 cache) accepts EVERY run of the model of resolver.cpp + cache.cpp under the virtual-time kernel,
   for all scripts of cache additions, resolver creations, lookups, delivered messages and exact / "before" advances
   (late firings excluded, TTLs up to TTL_MAX, jitter 0..19, fuel covering the triggers of the cache). *)
From QV Require Import Base Fields SrcFacts Msg SrcDecisions Cache CacheSpec CacheProofs CacheAccept Sim Prober Resolver ResolverProofs ResolverInv.
From Coq Require Import ZifyBool ZifyNat ZifyN Sorted.
Local Open Scope Z_scope.

(* ------------------------------------------------------------------ the kernel's choice among due timers *)
Definition tdue (t : Z) (strict : bool) (x : N * Z * N) : bool := if strict then snd (fst x) <? t else snd (fst x) <=? t.
Definition tle (x y : N * Z * N) : Prop := snd (fst x) < snd (fst y) \/ (snd (fst x) = snd (fst y) /\ (snd x <= snd y)%N).

Lemma tm_next_char : forall tm t strict best,
  match tm_next tm t strict best with
  | Some x => (best = Some x \/ (In x tm /\ tdue t strict x = true)) /\
              (forall y, In y tm -> tdue t strict y = true -> tle x y) /\
              (forall b, best = Some b -> tle x b)
  | None => best = None /\ forall y, In y tm -> tdue t strict y = false
  end.
Proof.
  induction tm as [|[[i d] s] tm IH]; intros t strict best; cbn [tm_next].
  - destruct best as [b|]; [|split; [reflexivity|intros y []]].
    split; [left; reflexivity|]. split; [intros y []|]. intros b' [= <-]. unfold tle. right. split; [reflexivity|lia].
  - set (due := if strict then d <? t else d <=? t).
    set (better := match best with None => true | Some (_, d0, s0) => (d <? d0) || ((d =? d0) && (s <? s0)%N) end).
    specialize (IH t strict (if due && better then Some (i, d, s) else best)).
    destruct (tm_next tm t strict (if due && better then Some (i, d, s) else best)) as [x|].
    + destruct IH as (I1 & I2 & I3). split; [|split].
      * destruct I1 as [I1|[I1 I1']]; [|right; split; [right; exact I1|exact I1']].
        destruct (due && better) eqn:E; [|left; exact I1]. injection I1 as <-. right. split; [left; reflexivity|].
        apply andb_true_iff in E as [E _]. exact E.
      * intros y [<-|Hy] Dy; [|apply I2; assumption].
        unfold tdue in Dy. cbn [fst snd] in Dy. fold due in Dy. rewrite Dy in I3. cbn [andb] in I3.
        destruct better eqn:Eb.
        -- apply (I3 _ eq_refl).
        -- destruct best as [[[i0 d0] s0]|]; [|discriminate]. specialize (I3 _ eq_refl). unfold better in Eb. unfold tle in *. cbn [fst snd] in *. lia.
      * intros b Hb. subst best. destruct (due && better) eqn:E; [|apply I3; reflexivity].
        specialize (I3 _ eq_refl). apply andb_true_iff in E as [_ E]. destruct b as [[i0 d0] s0]. unfold better in E. unfold tle in *. cbn [fst snd] in *. lia.
    + destruct IH as (I1 & I2). destruct (due && better) eqn:E; [discriminate|]. split; [exact I1|].
      intros y [<-|Hy]; [|apply I2, Hy]. subst best. unfold tdue. cbn [fst snd]. fold due. unfold better in E. rewrite andb_true_r in E. exact E.
Qed.

Lemma tm_next_none tm t strict : tm_next tm t strict None = None -> forall y, In y tm -> tdue t strict y = false.
Proof. intro H. pose proof (tm_next_char tm t strict None) as C. rewrite H in C. apply C. Qed.

Lemma tm_next_some tm t strict x : tm_next tm t strict None = Some x ->
  In x tm /\ tdue t strict x = true /\ forall y, In y tm -> tdue t strict y = true -> tle x y.
Proof.
  intro H. pose proof (tm_next_char tm t strict None) as C. rewrite H in C. destruct C as ([C|[C1 C2]] & C3 & _); [discriminate|auto].
Qed.

(* ------------------------------------------------------------------ the timer table as a pair of optional timers *)
Definition tm_ok (tm : timers) (oc orr : option (Z * N)) : Prop :=
  (forall i d s, In (i, d, s) tm -> (i = T_CACHE /\ oc = Some (d, s)) \/ (i = T_RES /\ orr = Some (d, s))) /\
  (forall d s, oc = Some (d, s) -> In (T_CACHE, d, s) tm) /\
  (forall d s, orr = Some (d, s) -> In (T_RES, d, s) tm).

Lemma In_tm_remove_iff x tid tm : In x (tm_remove tid tm) <-> In x tm /\ fst (fst x) <> tid.
Proof.
  unfold tm_remove. rewrite filter_In. destruct x as [[i d] s]. cbn [fst]. split; intros [H1 H2]; split; auto.
  - apply negb_true_iff, N.eqb_neq in H2. exact H2.
  - apply negb_true_iff, N.eqb_neq. exact H2.
Qed.

Lemma tm_ok_remove_cache tm oc orr : tm_ok tm oc orr -> tm_ok (tm_remove T_CACHE tm) None orr.
Proof.
  intros (A & B & C). split; [|split].
  - intros i d s H. apply In_tm_remove_iff in H as [H Hne]. cbn [fst] in Hne. destruct (A i d s H) as [[E _]|[E1 E2]]; [congruence|]. right. auto.
  - discriminate.
  - intros d s H. apply In_tm_remove_iff. split; [apply C, H|]. cbn. discriminate.
Qed.
Lemma tm_ok_remove_res tm oc orr : tm_ok tm oc orr -> tm_ok (tm_remove T_RES tm) oc None.
Proof.
  intros (A & B & C). split; [|split].
  - intros i d s H. apply In_tm_remove_iff in H as [H Hne]. cbn [fst] in Hne. destruct (A i d s H) as [[E1 E2]|[E _]]; [|congruence]. left. auto.
  - intros d s H. apply In_tm_remove_iff. split; [apply B, H|]. cbn. discriminate.
  - discriminate.
Qed.
Lemma tm_ok_add_cache tm orr d s : tm_ok tm None orr -> tm_ok (tm ++ [(T_CACHE, d, s)]) (Some (d, s)) orr.
Proof.
  intros (A & B & C). split; [|split].
  - intros i d' s' H. apply in_app_iff in H as [H|[H|[]]].
    + destruct (A i d' s' H) as [[_ E]|E]; [discriminate|right; exact E].
    + injection H as <- <- <-. left. auto.
  - intros d' s' [= <- <-]. apply in_app_iff. right. left. reflexivity.
  - intros d' s' H. apply in_app_iff. left. apply C, H.
Qed.
Lemma tm_ok_add_res tm oc d s : tm_ok tm oc None -> tm_ok (tm ++ [(T_RES, d, s)]) oc (Some (d, s)).
Proof.
  intros (A & B & C). split; [|split].
  - intros i d' s' H. apply in_app_iff in H as [H|[H|[]]].
    + destruct (A i d' s' H) as [E|[_ E]]; [left; exact E|discriminate].
    + injection H as <- <- <-. right. auto.
  - intros d' s' H. apply in_app_iff. left. apply B, H.
  - intros d' s' [= <- <-]. apply in_app_iff. right. left. reflexivity.
Qed.

(* sequence numbers in the table never exceed the counter *)
Definition seq_ok (tm : timers) (sq : N) : Prop := forall i d s, In (i, d, s) tm -> (s <= sq)%N.

(* ------------------------------------------------------------------ the cache's own timer after an addition *)
Lemma add_timer now j r c : GInv now c -> ttl_ok r -> 0 <= j < 20 ->
  c_timer (fst (add now j r c)) =
    (if add_rearms now j r c then Some (hd now (triggers now j (r_ttl r))) else c_timer c) /\
  (add_rearms now j r c = true -> now < hd now (triggers now j (r_ttl r))).
Proof.
  intros G Ht Hj. unfold add, add_rearms. rewrite !rearm_match. destruct (scan r [] (c_entries c)) as [kept sg].
  destruct (r_ttl r =? 0)%N eqn:E0; cbn [negb andb fst c_timer]; [split; [reflexivity|discriminate]|].
  assert (H1 : (1 <= r_ttl r <= TTL_MAX)%N) by (unfold ttl_ok in Ht; apply N.eqb_neq in E0; lia).
  rewrite (triggers_value now j (r_ttl r) Ht).
  assert (Hb := schedule_bounds now j (r_ttl r) (hd now (schedule now j (r_ttl r))) H1 Hj ltac:(unfold schedule; left; reflexivity)).
  destruct (match c_next c with Some n => hd now (schedule now j (r_ttl r)) <? n | None => true end) eqn:RA; cbn [fst c_timer].
  - split; [|intros _; lia]. apply timer_start_small. lia.
  - split; [reflexivity|discriminate].
Qed.

(* ------------------------------------------------------------------ content of the cache against the reference *)
Lemma Sh_recs es L : Forall2 Sh es L -> map e_rec es = map me_rec L.
Proof. induction 1 as [|e m es L (Hr & _) _ IH]; cbn [map]; [reflexivity|]. rewrite Hr, IH. reflexivity. Qed.

Lemma Sh_lookup n ty c L : Forall2 Sh (c_entries c) L -> lookup n ty c = ref_lookup n ty L.
Proof.
  intro H. unfold lookup, ref_lookup. rewrite (Sh_recs _ _ H), filter_map_comm. f_equal. apply filter_ext. intro m. apply lookup_match_spec.
Qed.

Lemma Sh_filter r es L : Forall2 Sh es L ->
  Forall2 Sh (filter (fun e => negb (matches r e)) es) (filter (fun m => negb (spec_match r (me_rec m))) L).
Proof.
  induction 1 as [|e m es L HS _ IH]; cbn [filter]; [apply Forall2_nil|].
  unfold matches at 1. rewrite (proj1 HS). destruct (spec_match r (me_rec m)); cbn [negb]; [exact IH|apply Forall2_cons; assumption].
Qed.

Lemma Sh_new now j r : (1 <= r_ttl r <= TTL_MAX)%N -> 0 <= j < 20 ->
  Sh (mkEntry r (triggers now j (r_ttl r))) (mkMent r now 0).
Proof.
  intros Ht Hj. set (h := mkGh (mkMent r now 0) j false).
  assert (W : gwf h) by (unfold gwf, h, g_rec; cbn; repeat split; try lia; discriminate).
  pose proof (Cpl_Sh [h] (Forall_cons h W (Forall_nil _))) as F. cbn [map] in F. inversion F as [|? ? ? ? HS _]; subst.
  unfold ent_of, g_trig, g_rec, h in HS. cbn [g_m g_j me_rec me_warned me_t0 skipn] in HS.
  rewrite triggers_value by (unfold ttl_ok; lia). exact HS.
Qed.

Lemma Sh_add now j r c L : ttl_ok r -> 0 <= j < 20 -> Forall2 Sh (c_entries c) L ->
  Forall2 Sh (c_entries (fst (add now j r c))) (ref_add now r L).
Proof.
  intros Ht Hj H. rewrite add_entries. unfold ref_add, new_entry. apply Forall2_app; [apply Sh_filter, H|].
  destruct (r_ttl r =? 0)%N eqn:E0; [apply Forall2_nil|]. apply Forall2_cons; [|apply Forall2_nil].
  apply Sh_new; [|exact Hj]. unfold ttl_ok in Ht. apply N.eqb_neq in E0. lia.
Qed.

(* ------------------------------------------------------------------ one cache addition through the kernel *)
Definition ord_ok (oc orr : option (Z * N)) : Prop :=
  forall dc sc dr sr, oc = Some (dc, sc) -> orr = Some (dr, sr) -> dr < dc \/ (dc = dr /\ (sc < sr)%N).

Lemma kadd now tm sq c j r oc orr :
  GInv now c -> ttl_ok r -> 0 <= j < 20 -> tm_ok tm oc orr -> seq_ok tm sq -> c_timer c = option_map fst oc ->
  ord_ok oc orr -> (forall dr sr, orr = Some (dr, sr) -> dr <= now) ->
  let c' := fst (fst (cache_add_eff now j r c)) in
  let res := apply_effs now tm sq (snd (cache_add_eff now j r c)) in
  c' = fst (add now j r c) /\ snd res = [] /\ (sq <= snd (fst res))%N /\
  exists oc', tm_ok (fst (fst res)) oc' orr /\ seq_ok (fst (fst res)) (snd (fst res)) /\
              c_timer c' = option_map fst oc' /\ ord_ok oc' orr /\ GInv now c'.
Proof.
  intros G Ht Hj TM SQ CT OR HR. cbv zeta. unfold cache_add_eff.
  destruct (add_timer now j r c G Ht Hj) as (AT & AL).
  pose proof (add_preserves_GInv now j r c G Ht Hj) as G'.
  destruct (add now j r c) as [c' sg] eqn:EA. cbn [fst snd] in *.
  split; [reflexivity|]. destruct (add_rearms now j r c) eqn:RA.
  - rewrite AT. cbn [apply_effs fst snd]. split; [reflexivity|]. split; [lia|].
    set (t0 := hd now (triggers now j (r_ttl r))) in *. specialize (AL eq_refl).
    exists (Some (t0, (sq + 1)%N)). replace (now + (t0 - now)) with t0 by lia. split; [|split; [|split; [|split]]].
    + apply tm_ok_add_cache. apply (tm_ok_remove_cache tm oc orr TM).
    + intros i d s H. apply in_app_iff in H as [H|[H|[]]].
      * apply In_tm_remove_iff in H as [H _]. specialize (SQ i d s H). lia.
      * injection H as _ _ <-. lia.
    + reflexivity.
    + intros dc sc dr sr [= <- <-] Hr. left. specialize (HR dr sr Hr). lia.
    + exact G'.
  - cbn [apply_effs fst snd]. split; [reflexivity|]. split; [lia|]. exists oc. rewrite AT. auto.
Qed.

Lemma apply_effs_app now : forall e1 e2 tm sq,
  apply_effs now tm sq (e1 ++ e2) =
  (fst (fst (apply_effs now (fst (fst (apply_effs now tm sq e1))) (snd (fst (apply_effs now tm sq e1))) e2)),
   snd (fst (apply_effs now (fst (fst (apply_effs now tm sq e1))) (snd (fst (apply_effs now tm sq e1))) e2)),
   snd (apply_effs now tm sq e1) ++ snd (apply_effs now (fst (fst (apply_effs now tm sq e1))) (snd (fst (apply_effs now tm sq e1))) e2)).
Proof.
  induction e1 as [|e e1 IH]; intros e2 tm sq; cbn [app apply_effs fst snd].
  - destruct (apply_effs now tm sq e2) as [[a b] c]. reflexivity.
  - destruct e; try (rewrite IH; destruct (apply_effs now tm sq e1) as [[tm1 sq1] o1]; cbn [fst snd];
                     destruct (apply_effs now tm1 sq1 e2) as [[tm2 sq2] o2]; reflexivity); apply IH.
Qed.

(* ------------------------------------------------------------------ the cache part of the coupling *)
Record CI (now : Z) (tm : timers) (sq : N) (c : cache) (oc orr : option (Z * N)) (L : list ment) : Prop := {
  ci_g : GInv now c;
  ci_tm : tm_ok tm oc orr;
  ci_seq : seq_ok tm sq;
  ci_ct : c_timer c = option_map fst oc;
  ci_ord : ord_ok oc orr;
  ci_sh : Forall2 Sh (c_entries c) L }.

Lemma kadd_CI now tm sq c j r oc orr L :
  CI now tm sq c oc orr L -> ttl_ok r -> 0 <= j < 20 -> (forall dr sr, orr = Some (dr, sr) -> dr <= now) ->
  let c' := fst (fst (cache_add_eff now j r c)) in
  let res := apply_effs now tm sq (snd (cache_add_eff now j r c)) in
  snd res = [] /\ exists oc', CI now (fst (fst res)) (snd (fst res)) c' oc' orr (ref_add now r L).
Proof.
  intros [G TM SQ CT OR SH] Ht Hj HR. cbv zeta.
  destruct (kadd now tm sq c j r oc orr G Ht Hj TM SQ CT OR HR) as (E & O & _ & oc' & TM' & SQ' & CT' & OR' & G').
  split; [exact O|]. exists oc'. rewrite E in *. constructor; auto. apply Sh_add; assumption.
Qed.

(* ------------------------------------------------------------------ a response: records in order *)
Lemma addr_eqb_true a : addr_eqb a a = true.
Proof. destruct a; cbn; auto using N.eqb_refl, bytes_eqb_refl. Qed.

Lemma krecords now orr : (forall dr sr, orr = Some (dr, sr) -> dr <= now) ->
  forall rs s tm sq oc L,
  CI now tm sq (rs_cache s) oc orr L -> 0 <= rs_jitter s < 20 -> Forall ttl_ok rs ->
  let res := res_records now rs s in
  let ap := apply_effs now tm sq (snd res) in
  let mr := rmon_records now (bs_data (rs_name s)) rs L (rs_addrs s) in
  addrs_match (snd ap) (snd mr) = true /\ forallb (rtime_ok now now) (snd ap) = true /\
  (exists oc', CI now (fst (fst ap)) (snd (fst ap)) (rs_cache (fst res)) oc' orr (fst (fst mr))) /\
  rs_addrs (fst res) = snd (fst mr) /\ rs_name (fst res) = rs_name s /\ rs_active (fst res) = rs_active s /\
  rs_jitter (fst res) = rs_jitter s.
Proof.
  intros HR. induction rs as [|r rs IH]; intros s tm sq oc L C Hj Ht; cbv zeta; cbn [res_records rmon_records].
  - cbn [snd fst apply_effs addrs_match forallb]. repeat split; auto. exists oc. exact C.
  - inversion Ht as [|? ? Hr Hrs]; subst.
    rewrite resolver_filter_spec.
    change (bs_eqb (r_name r) (rs_name s)) with (bytes_eqb (bs_data (r_name r)) (bs_data (rs_name s))).
    destruct (bytes_eqb (bs_data (r_name r)) (bs_data (rs_name s)) && ((r_type r =? 1)%N || (r_type r =? 28)%N)) eqn:F; [|exact (IH s tm sq oc L C Hj Hrs)].
    destruct (kadd_CI now tm sq (rs_cache s) (rs_jitter s) r oc orr L C Hr Hj HR) as (O1 & oc1 & C1).
    destruct (cache_add_eff now (rs_jitter s) r (rs_cache s)) as [[c' sg] ce] eqn:CA. cbn [fst snd] in *.
    unfold resolver_report in *.
    set (report := negb (r_ttl r =? 0)%N && negb (existsb (addr_eqb (r_addr r)) (rs_addrs s))).
    assert (ER : ((r_ttl r =? 0)%N || existsb (addr_eqb (r_addr r)) (rs_addrs s)) = negb report).
    { unfold report. destruct (r_ttl r =? 0)%N, (existsb (addr_eqb (r_addr r)) (rs_addrs s)); reflexivity. }
    rewrite ER.
    set (s1 := mkRes c' (rs_jitter s) (rs_name s) (rs_active s) (if report then rs_addrs s ++ [r_addr r] else rs_addrs s)).
    destruct (apply_effs now tm sq ce) as [[tm1 sq1] o1] eqn:AP1. cbn [fst snd] in *. subst o1.
    specialize (IH s1 tm1 sq1 oc1 (ref_add now r L) C1 Hj Hrs). cbv zeta in IH. cbn [s1 rs_name rs_addrs rs_cache rs_jitter rs_active] in IH.
    destruct (res_records now rs s1) as [s2 e2] eqn:RR. cbn [fst snd] in *.
    rewrite apply_effs_app, AP1. cbn [fst snd app].
    destruct report; cbn [negb app].
    + destruct (rmon_records now (bs_data (rs_name s)) rs (ref_add now r L) (rs_addrs s ++ [r_addr r])) as [[rf rp] ex] eqn:MR.
      cbn [apply_effs]. cbn [fst snd] in *. destruct (apply_effs now tm1 sq1 e2) as [[tm2 sq2] o2]. cbn [fst snd] in *.
      destruct IH as (I1 & I2 & I3 & I4 & I5 & I6 & I7).
      cbn [addrs_match sig_addr forallb rtime_ok]. change (SIG_resolved =? SIG_resolved)%N with true. cbn iota.
      rewrite addr_eqb_true, I1, I2. replace (now <=? now) with true by lia. repeat split; auto.
    + destruct (rmon_records now (bs_data (rs_name s)) rs (ref_add now r L) (rs_addrs s)) as [[rf rp] ex] eqn:MR.
      cbn [fst snd] in *. destruct (apply_effs now tm1 sq1 e2) as [[tm2 sq2] o2]. cbn [fst snd] in *. exact IH.
Qed.

(* ------------------------------------------------------------------ the coupling at operation boundaries *)
Definition rsim := @sim resst.
Definition rdispatch := dispatch resst rapi res_handle.
Definition rfire_due := fire_due resst rapi res_handle.
Definition rstep := step resst rapi res_handle.

Record RI (s : rsim) (q : rmon) (oc orr : option (Z * N)) : Prop := {
  ri_ci : CI (s_now s) (s_tm s) (s_seq s) (rs_cache (s_st s)) oc orr (rm_ref q);
  ri_res : match orr with Some (dr, _) => rm_pending q = true /\ dr = s_now s | None => rm_pending q = false end;
  ri_name : rm_name q = bs_data (rs_name (s_st s));
  ri_active : rm_active q = rs_active (s_st s);
  ri_addrs : rm_reported q = rs_addrs (s_st s);
  ri_now : rm_now q = s_now s;
  ri_jit : 0 <= rs_jitter (s_st s) < 20 }.

Lemma ri_hr (s : rsim) q oc orr : RI s q oc orr -> forall dr sr, orr = Some (dr, sr) -> dr <= s_now s.
Proof. intros R dr sr E. pose proof (ri_res _ _ _ _ R) as H. rewrite E in H. destruct H as [_ ->]. lia. Qed.

Definition rop_ok (o : aop rapi) : Prop :=
  match o with
  | AApi (RCadd r j) => ttl_ok r /\ 0 <= j < 20
  | AApi (RJitter j) => 0 <= j < 20
  | AApi (RNew name) => name <> None
  | ADeliver m => Forall ttl_ok (m_records m)
  | ALate _ => False
  | _ => True
  end.

Lemma records_eqb_same l : records_eqb l l = true.  Proof. apply records_eqb_refl. Qed.

(* operations other than clock advances *)
Lemma instant_accepted fuel (s : rsim) q oc orr o : RI s q oc orr -> rop_ok o ->
  match o with AAdv _ | AAdvB _ | ALate _ => False | _ => True end ->
  (orr <> None -> rs_name (s_st s) <> None) ->
  exists q' oc' orr', rmon_step q o (snd (rstep fuel s o)) = inl q' /\ RI (fst (rstep fuel s o)) q' oc' orr' /\
                      (orr' <> None -> rs_name (s_st (fst (rstep fuel s o))) <> None).
Proof.
  intros R Hok Hk NN. pose proof (ri_hr s q oc orr R) as HR.
  destruct s as [now tm sq st]. destruct R as [C RES NM AC AD NW JT]. cbn [s_now s_tm s_seq s_st] in *.
  destruct o as [m|t|t|t|a]; try destruct Hk; unfold rstep; cbn [step].
  - (* a delivered message *)
    unfold dispatch. cbn [s_now s_st s_tm s_seq res_handle]. cbn [rop_ok] in Hok.
    unfold rmon_step. rewrite NW, AC.
    destruct (rs_active st && m_response m) eqn:EA.
    + destruct (krecords now orr HR (m_records m) st tm sq oc (rm_ref q) C JT Hok) as (K1 & K2 & (oc' & K3) & K4 & K5 & K6 & K7).
      cbv zeta in *. rewrite NM, AD.
      destruct (res_records now (m_records m) st) as [st' es]. cbn [fst snd] in *.
      destruct (apply_effs now tm sq es) as [[tm' sq'] o]. cbn [fst snd] in *.
      rewrite K2. cbn [negb].
      destruct (rmon_records now (bs_data (rs_name st)) (m_records m) (rm_ref q) (rs_addrs st)) as [[rf rp] ex]. cbn [fst snd] in *.
      rewrite K1. eexists. exists oc', orr. split; [reflexivity|]. split; [|cbn [s_st]; rewrite K5; exact NN].
      constructor; cbn [s_now s_tm s_seq s_st rm_ref rm_pending rm_name rm_active rm_reported rm_now]; auto; try congruence.
      * apply andb_true_iff in EA as [EA _]. congruence.
    + cbn [apply_effs fst snd forallb negb]. exists q, oc, orr. split; [reflexivity|]. split; [constructor; auto|exact NN].
  - (* API calls *)
    unfold dispatch. cbn [s_now s_st s_tm s_seq]. destruct a as [r j|name|j|n ty|]; cbn [res_handle rop_ok] in *.
    + (* the application adds a record to the cache *)
      destruct Hok as [Ht Hj].
      destruct (kadd_CI now tm sq (rs_cache st) j r oc orr (rm_ref q) C Ht Hj HR) as (O1 & oc' & C').
      destruct (cache_add_eff now j r (rs_cache st)) as [[c' sg] ce]. cbn [fst snd] in *.
      destruct (apply_effs now tm sq ce) as [[tm' sq'] o]. cbn [fst snd] in *. subst o.
      unfold rmon_step. eexists. exists oc', orr. split; [reflexivity|]. split; [|exact NN].
      constructor; cbn [s_now s_tm s_seq s_st rs_cache rs_jitter rs_name rs_active rs_addrs rm_ref rm_pending rm_name rm_active rm_reported rm_now]; auto.
      rewrite NW. exact C'.
    + (* a resolver is created *)
      destruct name as [nm|]; [|exfalso; apply Hok; reflexivity].
      cbn [apply_effs fst snd]. unfold rmon_step.
      set (st' := mkRes (rs_cache st) (rs_jitter st) (Some nm) true []).
      destruct (res_query_shape st') as (Q1 & Q2 & Q3).
      assert (is_res_query (bs_data (Some nm)) (ref_addresses (bs_data (Some nm)) (rm_ref q)) (res_query st') = true) as ->.
      { unfold is_res_query. rewrite Q1, Q2, Q3. cbn [negb andb q_name q_type st' rs_name rs_cache bs_data]. rewrite !bytes_eqb_refl. cbn [andb N.eqb Pos.eqb].
        unfold ref_addresses. rewrite !(Sh_lookup _ _ _ _ (ci_sh _ _ _ _ _ _ _ C)). apply records_eqb_same. }
      rewrite NW. replace (now =? now) with true by lia. cbn [andb].
      eexists. exists oc, (Some (now, (sq + 1)%N)). split; [reflexivity|]. split; [|intros _; discriminate].
      assert (Ed : now + resolver_delay_ms = now) by (change resolver_delay_ms with 0; lia). rewrite Ed.
      destruct C as [G TM SQ CT OR SH].
      constructor; cbn [s_now s_tm s_seq s_st st' rs_cache rs_jitter rs_name rs_active rs_addrs rm_ref rm_pending rm_name rm_active rm_reported rm_now bs_data]; auto.
      constructor; auto.
      * apply tm_ok_add_res. apply (tm_ok_remove_res tm oc orr TM).
      * intros i d s0 H. apply in_app_iff in H as [H|[H|[]]].
        -- apply In_tm_remove_iff in H as [H _]. specialize (SQ i d s0 H). lia.
        -- injection H as _ _ <-. lia.
      * intros dc sc dr sr -> [= <- <-]. cbn [option_map fst] in CT.
        pose proof (g_timer _ _ G) as GT. pose proof (g_next _ _ G) as GN. rewrite <- GT, CT in GN. destruct GN as [GN _].
        destruct TM as (_ & TB & _). specialize (SQ _ _ _ (TB dc sc eq_refl)). lia.
    + (* the jitter of the next additions *)
      cbn [apply_effs fst snd]. unfold rmon_step. exists q, oc, orr. split; [reflexivity|]. split; [constructor; auto|exact NN].
    + (* a lookup requested by the script *)
      cbn [apply_effs fst snd]. unfold rmon_step. rewrite (Sh_lookup _ _ _ _ (ci_sh _ _ _ _ _ _ _ C)), records_eqb_same.
      exists q, oc, orr. split; [reflexivity|]. split; [constructor; auto|exact NN].
    + cbn [apply_effs fst snd]. unfold rmon_step. exists q, oc, orr. split; [reflexivity|]. split; [constructor; auto|exact NN].
Qed.


(* ------------------------------------------------------------------ one firing of the cache's timer through the kernel *)
Lemma ktimeout now0 dc sc tm sq c orr L :
  CI now0 tm sq c (Some (dc, sc)) orr L -> (forall dr sr, orr = Some (dr, sr) -> dr <= dc) ->
  let c' := fst (fst (cache_timeout_eff dc c)) in
  let res := apply_effs dc (tm_remove T_CACHE tm) sq (snd (cache_timeout_eff dc c)) in
  snd res = [] /\ (sq <= snd (fst res))%N /\
  exists oc', CI dc (fst (fst res)) (snd (fst res)) c' oc' orr (filter (fun m => negb (me_expiry m =? dc)) L) /\
              (forall d' s', oc' = Some (d', s') -> dc < d').
Proof.
  intros [G TM SQ CT OR SH] HR. cbv zeta. cbn [option_map fst] in CT.
  assert (Hn : c_next c = Some dc) by (rewrite <- (g_timer _ _ G); exact CT).
  unfold cache_timeout_eff. rewrite Hn.
  destruct (firing dc now0 c G Hn) as (F1 & F2 & F3 & F4). rewrite Hn in F1, F2, F3, F4.
  destruct (on_timeout_facts dc now0 c _ _ G Hn (surjective_pairing _)) as (_ & _ & Hewf).
  destruct (on_timeout dc (mkCache (c_entries c) (Some dc) None)) as [c1 sg]. cbn [fst snd] in *.
  assert (TM0 : tm_ok (tm_remove T_CACHE tm) None orr) by (apply (tm_ok_remove_cache tm _ orr TM)).
  assert (SQ0 : seq_ok (tm_remove T_CACHE tm) sq).
  { intros i d s H. apply In_tm_remove_iff in H as [H _]. apply (SQ i d s H). }
  assert (SH1 : Forall2 Sh (c_entries c1) (filter (fun m => negb (me_expiry m =? dc)) L)).
  { rewrite F1. apply Sh_trim; assumption. }
  pose proof (g_timer _ _ F3) as GT1.
  destruct (c_timer c1) as [d'|] eqn:ET.
  - cbn [apply_effs fst snd]. split; [reflexivity|]. split; [lia|].
    assert (Hd : dc < d').
    { unfold attained in F4. rewrite <- GT1 in F4. apply In_firsts in F4 as (e' & rest & He' & Et).
      rewrite F1 in He'. apply In_filter_map in He' as (e & He & Htr).
      destruct (trim1_wf dc e e' (Hewf e He) Htr) as (_ & _ & _ & Hgt & _). apply Hgt. rewrite Et. left. reflexivity. }
    exists (Some (d', (sq + 1)%N)). replace (dc + (d' - dc)) with d' by lia. split.
    + constructor; auto.
      * apply tm_ok_add_cache. apply (tm_ok_remove_cache _ None orr TM0).
      * intros i d s H. apply in_app_iff in H as [H|[H|[]]].
        -- apply In_tm_remove_iff in H as [H _]. specialize (SQ0 i d s H). lia.
        -- injection H as _ _ <-. lia.
      * intros dc' sc' dr sr [= <- <-] Hr. left. specialize (HR dr sr Hr). lia.
    + intros d'' s'' [= <- <-]. exact Hd.
  - cbn [apply_effs fst snd]. split; [reflexivity|]. split; [lia|]. exists None. split; [|discriminate].
    constructor; auto. intros dc' sc' dr sr H. discriminate.
Qed.

Lemma purge_filter_eq d t' L : d <= t' ->
  ref_purge t' (filter (fun m => negb (me_expiry m =? d)) L) = ref_purge t' L.
Proof.
  intro H. unfold ref_purge. induction L as [|m L IH]; [reflexivity|]. cbn [filter].
  destruct (me_expiry m =? d) eqn:E; cbn [negb filter].
  - replace (me_expiry m <=? t') with true by lia. cbn [negb]. exact IH.
  - destruct (me_expiry m <=? t'); cbn [negb]; rewrite IH; reflexivity.
Qed.

Lemma purge_all_later t' es L : Forall2 Sh es L -> (forall e, In e es -> forall x, In x (e_trig e) -> t' < x) -> ref_purge t' L = L.
Proof.
  unfold ref_purge. induction 1 as [|e m es L (Hr & Hin & _) _ IH]; intro H; [reflexivity|]. cbn [filter].
  pose proof (H e (or_introl eq_refl) _ Hin). replace (me_expiry m <=? t') with false by lia. cbn [negb].
  rewrite IH; [reflexivity|]. intros e' He'. apply H. right. exact He'.
Qed.

Lemma addrs_match_sigs now (rs : list record) :
  addrs_match (map (fun r => OSignal now OBJ SIG_resolved (PAddr (r_addr r))) rs) (map r_addr rs) = true.
Proof.
  induction rs as [|r rs IH]; [reflexivity|]. cbn [map addrs_match sig_addr]. change (SIG_resolved =? SIG_resolved)%N with true. cbn iota.
  rewrite addr_eqb_true, IH. reflexivity.
Qed.

(* ------------------------------------------------------------------ a whole advance of the kernel (exact or "before") *)
Definition sigs_at (now : Z) (rs : list record) : list out := map (fun r => OSignal now OBJ SIG_resolved (PAddr (r_addr r))) rs.

Lemma apply_effs_sigs now tm sq (rs : list record) :
  apply_effs now tm sq (map (fun r => ESig OBJ SIG_resolved (PAddr (r_addr r))) rs) = (tm, sq, sigs_at now rs).
Proof. unfold sigs_at. induction rs as [|r l IHl]; [reflexivity|]. cbn [map apply_effs]. rewrite IHl. reflexivity. Qed.

Lemma rfire_unfold fuel t strict (s : rsim) :
  rfire_due (S fuel) t strict false s =
  match tm_next (s_tm s) t strict None with
  | None => (s, [])
  | Some (tid, d, _) =>
      let s1 := mkSim (Z.max (s_now s) d) (tm_remove tid (s_tm s)) (s_seq s) (s_st s) in
      (fst (rfire_due fuel t strict false (fst (rdispatch s1 (EvTimer tid)))),
       snd (rdispatch s1 (EvTimer tid)) ++ snd (rfire_due fuel t strict false (fst (rdispatch s1 (EvTimer tid)))))
  end.
Proof.
  unfold rfire_due, rdispatch. cbn [fire_due]. destruct (tm_next (s_tm s) t strict None) as [[[tid d] sq]|]; [|reflexivity].
  cbv zeta. destruct (dispatch resst rapi res_handle _ (EvTimer tid)) as [s2 o1]. cbn [fst snd].
  destruct (fire_due resst rapi res_handle fuel t strict false s2) as [s3 o2]. reflexivity.
Qed.

Lemma fire_loop : forall fuel t strict (s : rsim) oc orr L,
  CI (s_now s) (s_tm s) (s_seq s) (rs_cache (s_st s)) oc orr L ->
  s_now s <= t -> (forall dr sr, orr = Some (dr, sr) -> dr = s_now s /\ rs_name (s_st s) <> None) ->
  ~ In OOutOfFuel (snd (rfire_due fuel t strict false s)) ->
  let res := rfire_due fuel t strict false s in
  let t' := if strict then t - 1 else t in
  let fires := match orr with Some (dr, _) => dr <=? t' | None => false end in
  snd res = (if fires then sigs_at (s_now s) (ref_addresses (bs_data (rs_name (s_st s))) (ref_purge (s_now s) L)) else []) /\
  (exists oc', CI (s_now (fst res)) (s_tm (fst res)) (s_seq (fst res)) (rs_cache (s_st (fst res))) oc' (if fires then None else orr) (ref_purge t' L) /\
               forall dc sc, oc' = Some (dc, sc) -> t' < dc) /\
  s_now s <= s_now (fst res) <= t /\
  rs_name (s_st (fst res)) = rs_name (s_st s) /\ rs_active (s_st (fst res)) = rs_active (s_st s) /\
  rs_addrs (s_st (fst res)) = rs_addrs (s_st s) /\ rs_jitter (s_st (fst res)) = rs_jitter (s_st s).
Proof.
  induction fuel as [|f IH]; intros t strict s oc orr L C Hnt HR NF; [exfalso; apply NF; left; reflexivity|].
  cbv zeta. rewrite rfire_unfold in *.
  set (t' := if strict then t - 1 else t).
  assert (Ht' : t' <= t) by (unfold t'; destruct strict; lia).
  assert (Hdue : forall x, tdue t strict x = (snd (fst x) <=? t')) by (intro x; unfold tdue, t'; destruct strict; lia).
  pose proof C as [G TM SQ CT OR SH].
  destruct (tm_next (s_tm s) t strict None) as [[[tid d] sqx]|] eqn:TN.
  - (* some timer is due *)
    apply tm_next_some in TN as (Hin & Hd & Hmin). rewrite Hdue in Hd. cbn [fst snd] in Hd.
    destruct TM as (TA & TB & TC). destruct (TA tid d sqx Hin) as [[-> Eoc]|[-> Eor]].
    + (* the cache's timer, at its deadline *)
      subst oc. cbn [option_map fst] in CT.
      assert (Hn : c_next (rs_cache (s_st s)) = Some d) by (rewrite <- (g_timer _ _ G); exact CT).
      pose proof (g_next _ _ G) as GN. rewrite Hn in GN. destruct GN as [Hnd Hlow].
      replace (Z.max (s_now s) d) with d in * by lia.
      assert (HR' : forall dr sr, orr = Some (dr, sr) -> dr <= d) by (intros dr sr E; destruct (HR dr sr E) as [-> _]; lia).
      destruct (ktimeout (s_now s) d sqx (s_tm s) (s_seq s) (rs_cache (s_st s)) orr L C HR') as (O1 & _ & oc1 & C1 & Hlater).
      unfold rdispatch, dispatch in *. cbn [s_now s_st s_tm s_seq res_handle] in *. rewrite N.eqb_refl in *.
      destruct (cache_timeout_eff d (rs_cache (s_st s))) as [[c1 sg] ce]. cbn [fst snd] in *.
      destruct (apply_effs d (tm_remove T_CACHE (s_tm s)) (s_seq s) ce) as [[tm1 sq1] o1]. cbn [fst snd] in *. subst o1.
      set (s2 := mkSim d tm1 sq1 (mkRes c1 (rs_jitter (s_st s)) (rs_name (s_st s)) (rs_active (s_st s)) (rs_addrs (s_st s)))) in *.
      cbn [app] in NF.
      assert (HR2 : forall dr sr, orr = Some (dr, sr) -> dr = s_now s2 /\ rs_name (s_st s2) <> None).
      { intros dr sr E. destruct (HR dr sr E) as [E1 E2]. split; [|exact E2]. cbn [s2 s_now].
        (* the cache fires first only at the very instant the resolver's timer is due *)
        specialize (HR' dr sr E).
        specialize (Hmin (T_RES, dr, sr) (TC dr sr E) ltac:(rewrite Hdue; cbn [fst snd]; lia)). unfold tle in Hmin. cbn [fst snd] in Hmin. lia. }
      destruct (IH t strict s2 oc1 orr _ C1 ltac:(cbn; lia) HR2 NF) as (I1 & (oc2 & I2) & I3 & I4 & I5 & I6 & I7).
      fold t' in I1, I2. cbn [app]. cbn [s2 s_now s_st rs_name rs_active rs_addrs rs_jitter] in I1, I3, I4, I5, I6, I7.
      split; [|split; [|split; [|auto]]].
      * rewrite I1. destruct orr as [[dr sr]|]; [|reflexivity]. destruct (dr <=? t'); [|reflexivity].
        destruct (HR2 dr sr eq_refl) as [E _]. cbn [s2 s_now] in E. destruct (HR dr sr eq_refl) as [E' _].
        rewrite <- E, (purge_filter_eq dr dr L) by lia. rewrite E'. reflexivity.
      * exists oc2. rewrite (purge_filter_eq d t' L) in I2 by lia. exact I2.
      * lia.
    + (* the resolver's zero-delay timer *)
      subst orr. destruct (HR d sqx eq_refl) as [Ed Hname]. subst d.
      replace (Z.max (s_now s) (s_now s)) with (s_now s) in * by lia.
      unfold rdispatch, dispatch in *. cbn [s_now s_st s_tm s_seq res_handle] in *.
      change (T_RES =? T_CACHE)%N with false in *. cbn iota in *.
      set (sg := map (fun r => ESig OBJ SIG_resolved (PAddr (r_addr r))) (existing (s_st s))) in *.
      assert (AE : apply_effs (s_now s) (tm_remove T_RES (s_tm s)) (s_seq s) sg =
                   (tm_remove T_RES (s_tm s), s_seq s, sigs_at (s_now s) (existing (s_st s)))).
      { unfold sg. apply apply_effs_sigs. }
      rewrite AE in *. cbn [fst snd] in *.
      set (s2 := mkSim (s_now s) (tm_remove T_RES (s_tm s)) (s_seq s) (s_st s)) in *.
      assert (C2 : CI (s_now s2) (s_tm s2) (s_seq s2) (rs_cache (s_st s2)) oc None L).
      { constructor; cbn [s2 s_now s_tm s_seq s_st]; auto.
        - apply (tm_ok_remove_res _ oc _ (conj TA (conj TB TC))).
        - intros i d s0 H. apply In_tm_remove_iff in H as [H _]. apply (SQ i d s0 H).
        - intros dc sc dr sr _ H. discriminate. }
      assert (NF2 : ~ In OOutOfFuel (snd (rfire_due f t strict false s2))).
      { intro H. apply NF. apply in_app_iff. right. exact H. }
      destruct (IH t strict s2 oc None L C2 ltac:(cbn; lia) ltac:(intros; discriminate) NF2) as (I1 & (oc2 & I2) & I3 & I4 & I5 & I6 & I7).
      fold t' in I1, I2. cbn [s2 s_now s_st] in I1, I3, I4, I5, I6, I7.
      replace (s_now s <=? t') with true by lia.
      (* nothing in the cache is due at or before this instant: the cache's timer, if any, is strictly later *)
      assert (Hpure : ref_purge (s_now s) L = L).
      { apply (purge_all_later (s_now s) (c_entries (rs_cache (s_st s))) L SH). intros e He x Hx.
        pose proof (g_next _ _ G) as GN. pose proof (g_timer _ _ G) as GT. rewrite <- GT, CT in GN.
        destruct oc as [[dc sc]|]; cbn [option_map fst] in GN.
        - destruct GN as [_ Hlow]. specialize (Hlow e He x Hx).
          assert (Hc : In (T_CACHE, dc, sc) (s_tm s)) by (apply TB; reflexivity).
          assert (Hlt : s_now s < dc).
          { destruct (OR dc sc (s_now s) sqx eq_refl eq_refl) as [H|[H1 H2]]; [exact H|]. exfalso.
            specialize (Hmin (T_CACHE, dc, sc) Hc ltac:(rewrite Hdue; cbn [fst snd]; lia)). unfold tle in Hmin. cbn [fst snd] in Hmin. lia. }
          lia.
        - rewrite GN in He. destruct He. }
      split; [|split; [|split; [|auto]]].
      * rewrite I1, app_nil_r, Hpure. unfold sigs_at. f_equal. unfold existing, ref_addresses.
        rewrite !(Sh_lookup _ _ _ _ SH). destruct (rs_name (s_st s)) as [nm|]; [reflexivity|congruence].
      * exists oc2. exact I2.
      * lia.
  - (* nothing is due *)
    cbn [fst snd]. pose proof (tm_next_none _ _ _ TN) as Hnone.
    assert (Hf : match orr with Some (dr, _) => dr <=? t' | None => false end = false).
    { destruct orr as [[dr sr]|]; [|reflexivity]. destruct TM as (_ & _ & TC). specialize (Hnone _ (TC dr sr eq_refl)). rewrite Hdue in Hnone. exact Hnone. }
    rewrite Hf. split; [reflexivity|]. split; [|repeat split; auto; lia].
    exists oc. split.
    2:{ intros dc sc ->. destruct TM as (_ & TB & _). specialize (Hnone _ (TB dc sc eq_refl)). rewrite Hdue in Hnone. cbn [fst snd] in Hnone. lia. }
    assert (ref_purge t' L = L) as ->; [|exact C].
    apply (purge_all_later t' (c_entries (rs_cache (s_st s))) L SH). intros e He x Hx.
    pose proof (g_next _ _ G) as GN. pose proof (g_timer _ _ G) as GT. rewrite <- GT, CT in GN.
    destruct oc as [[dc sc]|]; cbn [option_map fst] in GN.
    + destruct GN as [_ Hlow]. specialize (Hlow e He x Hx). destruct TM as (_ & TB & _).
      specialize (Hnone _ (TB dc sc eq_refl)). rewrite Hdue in Hnone. cbn [fst snd] in Hnone. lia.
    + rewrite GN in He. destruct He.
Qed.

Lemma GInv_advance now t c : GInv now c -> now <= t -> (forall n, c_next c = Some n -> t <= n) -> GInv t c.
Proof.
  intros [G1 G2 G3 G4] Hnt Hn. constructor; auto.
  - intros e He. destruct (G2 e He) as (A & B & C). repeat split; auto. intros x Hx. specialize (C x Hx). lia.
  - destruct (c_next c) as [n|]; [|exact G4]. destruct G4 as [A B]. split; [apply Hn; reflexivity|exact B].
Qed.

Lemma sigs_time lo hi now rs : lo <= now <= hi -> forallb (rtime_ok lo hi) (sigs_at now rs) = true.
Proof.
  intro H. unfold sigs_at. induction rs as [|r l IH]; [reflexivity|]. cbn [map forallb rtime_ok]. rewrite IH.
  replace (lo <=? now) with true by lia. replace (now <=? hi) with true by lia. reflexivity.
Qed.

(* the coupling at operation boundaries, with the invariant that a pending report has a name to report for *)
Definition RK (s : rsim) (q : rmon) : Prop :=
  exists oc orr, RI s q oc orr /\ (orr <> None -> rs_name (s_st s) <> None).

Lemma advance_accepted fuel (s : rsim) q t (strict : bool) : RK s q -> s_now s <= t ->
  ~ In OOutOfFuel (snd (rfire_due fuel t strict false s)) ->
  let res := rfire_due fuel t strict false s in
  exists q', rmon_step q (if strict then AAdvB t else AAdv t) (snd res) = inl q' /\ RK (set_now resst t (fst res)) q'.
Proof.
  intros (oc & orr & R & NN) Hnt NF. cbv zeta. destruct R as [C RES NM AC AD NW JT].
  assert (HR : forall dr sr, orr = Some (dr, sr) -> dr = s_now s /\ rs_name (s_st s) <> None).
  { intros dr sr E. rewrite E in RES. destruct RES as [_ ->]. split; [reflexivity|]. apply NN. rewrite E. discriminate. }
  destruct (fire_loop fuel t strict s oc orr (rm_ref q) C Hnt HR NF) as (F1 & (oc' & F2 & F2') & F3 & F4 & F5 & F6 & F7).
  cbv zeta in *. set (t' := if strict then t - 1 else t) in *.
  assert (Ht' : t' <= t) by (unfold t'; destruct strict; lia).
  set (fires := match orr with Some (dr, _) => dr <=? t' | None => false end) in *.
  assert (Edue : rm_pending q && negb (strict && (t =? rm_now q)) = fires).
  { unfold fires. rewrite NW. destruct orr as [[dr sr]|].
    - destruct RES as [-> ->]. unfold t'. destruct strict; cbn [andb negb]; lia.
    - rewrite RES. reflexivity. }
  destruct (rfire_due fuel t strict false s) as [s' o]. cbn [fst snd] in *.
  assert (Estep : rmon_step q (if strict then AAdvB t else AAdv t) o =
          (let due := rm_pending q && negb (strict && (t =? rm_now q)) in
           let ex := if due then map r_addr (ref_addresses (rm_name q) (ref_purge (rm_now q) (rm_ref q))) else [] in
           if negb (forallb (rtime_ok (rm_now q) t) o) then inr 5%N else
           if addrs_match o ex
           then inl (mkRmon (ref_purge (if strict then t - 1 else t) (rm_ref q)) (rm_name q) (rm_active q) (rm_pending q && negb due) (rm_reported q) t)
           else inr 2%N)).
  { destruct strict; unfold rmon_step; rewrite NW; replace (t <? s_now s) with false by lia; reflexivity. }
  rewrite Estep. cbv zeta. rewrite Edue, NW, NM, F1. fold t'.
  destruct fires eqn:EF.
  - rewrite sigs_time by lia. cbn [negb]. unfold sigs_at. rewrite addrs_match_sigs.
    eexists. split; [reflexivity|]. exists oc', None. split; [|congruence].
    assert (Gt : GInv (Z.max (s_now s') t) (rs_cache (s_st s'))).
    { apply (GInv_advance (s_now s')); [exact (ci_g _ _ _ _ _ _ _ F2)|lia|].
      intros n Hn. pose proof (ci_ct _ _ _ _ _ _ _ F2) as CT'. rewrite (g_timer _ _ (ci_g _ _ _ _ _ _ _ F2)), Hn in CT'.
      destruct oc' as [[dc sc]|]; [|discriminate]. injection CT' as ->. specialize (F2' dc sc eq_refl). unfold t' in F2'. destruct strict; lia. }
    destruct F2 as [G2 TM2 SQ2 CT2 OR2 SH2].
    constructor; cbn [set_now s_now s_tm s_seq s_st rm_ref rm_pending rm_name rm_active rm_reported rm_now]; try congruence.
    + constructor; auto.
    + rewrite andb_false_r. reflexivity.
    + lia.
  - cbn [forallb negb addrs_match].
    eexists. split; [reflexivity|]. exists oc', orr. split; [|cbn [set_now s_st]; rewrite F4; exact NN].
    assert (Gt : GInv (Z.max (s_now s') t) (rs_cache (s_st s'))).
    { apply (GInv_advance (s_now s')); [exact (ci_g _ _ _ _ _ _ _ F2)|lia|].
      intros n Hn. pose proof (ci_ct _ _ _ _ _ _ _ F2) as CT'. rewrite (g_timer _ _ (ci_g _ _ _ _ _ _ _ F2)), Hn in CT'.
      destruct oc' as [[dc sc]|]; [|discriminate]. injection CT' as ->. specialize (F2' dc sc eq_refl). unfold t' in F2'. destruct strict; lia. }
    destruct F2 as [G2 TM2 SQ2 CT2 OR2 SH2].
    constructor; cbn [set_now s_now s_tm s_seq s_st rm_ref rm_pending rm_name rm_active rm_reported rm_now]; try congruence.
    + constructor; auto.
    + rewrite andb_true_r. destruct orr as [[dr sr]|]; [|exact RES]. destruct RES as [Hp ->]. split; [exact Hp|].
      unfold fires in EF. unfold t' in EF. destruct strict; lia.
    + lia.
Qed.

Definition no_fuel_exhaustion (outs : list (list out)) : Prop := ~ In OOutOfFuel (concat outs).

Theorem rstep_accepted fuel (s : rsim) q o : RK s q -> rop_ok o -> ~ In OOutOfFuel (snd (rstep fuel s o)) ->
  exists q', rmon_step q o (snd (rstep fuel s o)) = inl q' /\ RK (fst (rstep fuel s o)) q'.
Proof.
  intros K Hok NF.
  assert (Inst : match o with AAdv _ | AAdvB _ | ALate _ => False | _ => True end ->
                 exists q', rmon_step q o (snd (rstep fuel s o)) = inl q' /\ RK (fst (rstep fuel s o)) q').
  { intro Hk. destruct K as (oc & orr & R & NN).
    destruct (instant_accepted fuel s q oc orr o R Hok Hk NN) as (q' & oc' & orr' & M & R' & NN').
    exists q'. split; [exact M|]. exists oc', orr'. auto. }
  destruct o as [m|t|t|t|a]; try (apply Inst; exact I).
  - unfold rstep in *. cbn [step] in *. destruct (t <? s_now s) eqn:E.
    + cbn [fst snd]. exists q. split; [|exact K]. destruct K as (oc & orr & R & _). unfold rmon_step. rewrite (ri_now _ _ _ _ R), E. reflexivity.
    + fold rfire_due in *. pose proof (advance_accepted fuel s q t false K ltac:(lia)) as A. cbv zeta in A.
      destruct (rfire_due fuel t false false s) as [s1 o1]. cbn [fst snd] in *. apply A, NF.
  - unfold rstep in *. cbn [step] in *. destruct (t <? s_now s) eqn:E.
    + cbn [fst snd]. exists q. split; [|exact K]. destruct K as (oc & orr & R & _). unfold rmon_step. rewrite (ri_now _ _ _ _ R), E. reflexivity.
    + fold rfire_due in *. pose proof (advance_accepted fuel s q t true K ltac:(lia)) as A. cbv zeta in A.
      destruct (rfire_due fuel t true false s) as [s1 o1]. cbn [fst snd] in *. apply A, NF.
  - destruct Hok.
Qed.

Theorem rrun_accepted_from fuel : forall ops (s : rsim) q k, RK s q -> Forall rop_ok ops ->
  no_fuel_exhaustion (run_g resst rapi res_handle (fun _ => []) fuel s ops) ->
  rmon_run q k ops (run_g resst rapi res_handle (fun _ => []) fuel s ops) = None.
Proof.
  induction ops as [|o ops IH]; intros s q k K Hok NF; [reflexivity|]. inversion Hok as [|? ? Ho Hops]; subst.
  cbn [run_g rmon_run] in *. unfold no_fuel_exhaustion in NF.
  pose proof (rstep_accepted fuel s q o K Ho) as ST. unfold rstep in ST.
  destruct (step resst rapi res_handle fuel s o) as [s' out]. cbn [fst snd concat] in *. rewrite app_nil_r in *.
  destruct ST as (q' & M & K'); [intro H; apply NF; apply in_app_iff; left; exact H|].
  rewrite M. apply IH; auto. intro H. apply NF. apply in_app_iff. right. exact H.
Qed.

(* the acceptor of C16 accepts every run of the model of resolver.cpp + cache.cpp *)
Theorem res_run_accepted fuel ops : Forall rop_ok ops -> no_fuel_exhaustion (res_run fuel ops) ->
  mon_resolver ops (res_run fuel ops) = None.
Proof.
  intros Hok NF. unfold mon_resolver, res_run in *. apply rrun_accepted_from; auto.
  exists None, None. split; [|congruence].
  constructor; cbn; auto; try lia. constructor; cbn; auto.
  - exact GInv_empty.
  - repeat split; intros; try discriminate. destruct H.
  - intros i d s [].
  - intros dc sc dr sr H. discriminate.
Qed.
