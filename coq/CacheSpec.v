(* CacheSpec.v — the properties C05 / C06 / C18 as an executable acceptor: a timer-less reference
   cache written from the property text (RFC 6762 cache rules), with the property's own constants
   (50/85/90/95 %, jitter 0..19 ms, expiry at exactly TTL seconds).  It judges a script together
   with the outputs observed for each operation — of the model (theorems) or of the real library. *)
From QV Require Import Base Fields SrcFacts Msg Cache.
Local Open Scope Z_scope.

(* "identical name, type and data": every field except the TTL and the cache-flush bit *)
Definition data_fields := [F_name; F_type; F_address; F_target; F_nextDomainName; F_priority;
                           F_weight; F_port; F_attributes; F_bitmap].
Definition same_data (a b : record) : bool := forallb (fun f => rfield_agree f a b) data_fields.
Definition same_record (a b : record) : bool := forallb (fun f => rfield_agree f a b) all_rfields.

Definition spec_match (new old : record) : bool :=
  same_data old new || (r_flush new && bs_eqb (r_name old) (r_name new) && (r_type old =? r_type new)%N).

Definition spec_lookup_match (name : bstr) (type : N) (r : record) : bool :=
  (match name with None => true | Some l => bytes_eqb (bs_data (r_name r)) l end)
  && ((type =? 255)%N || (r_type r =? type)%N).

Record ment := mkMent { me_rec : record; me_t0 : Z; me_warned : nat }.  (* warnings seen so far: 0..4 *)
Definition me_ttl (e : ment) : Z := Z.of_N (r_ttl (me_rec e)).
Definition me_expiry (e : ment) : Z := me_t0 e + 1000 * me_ttl e.
Definition fractions : list Z := [500; 850; 900; 950].
Definition JITTER : Z := 20.

Record mstate := mkMstate { ms_now : Z; ms_live : list ment }.
Definition mstate0 := mkMstate 0 [].

(* rejection codes *)
Inductive mres := MOk (s : mstate) | MBad (code : N).
(* 1 unexpected output kind for this operation     2 expiry notifications differ from the reference
   3 announced record still held at announcement   4 warning for a record that is not live
   5 warning outside the 50/85/90/95 % + [0,20) ms schedule or out of order or a fifth one
   6 warning at or after the expiry instant         7 a due warning was not raised
   8 lookup result differs from the reference       9 signal timestamp outside the advanced interval
   10 time moved backwards / unsupported operation *)

Fixpoint records_eqb (a b : list record) : bool :=
  match a, b with
  | [], [] => true
  | x :: a', y :: b' => same_record x y && records_eqb a' b'
  | _, _ => false
  end.

Definition out_expired (o : cout) : option (Z * record * list record) :=
  match o with OSig t (Expired r) snap => Some (t, r, snap) | _ => None end.
Definition out_warning (o : cout) : option (Z * record) :=
  match o with OSig t (ShouldQuery r) _ => Some (t, r) | _ => None end.
Fixpoint filter_map {A B} (f : A -> option B) (l : list A) : list B :=
  match l with [] => [] | x :: l' => match f x with Some y => y :: filter_map f l' | None => filter_map f l' end end.
Definition is_lookup (o : cout) : bool := match o with OLookup _ => true | _ => false end.

(* stable insertion by expiry instant *)
Fixpoint insert_by_expiry (e : ment) (l : list ment) : list ment :=
  match l with
  | [] => [e]
  | x :: l' => if me_expiry e <=? me_expiry x then e :: l else x :: insert_by_expiry e l'
  end.
Definition sort_by_expiry (l : list ment) : list ment := fold_right insert_by_expiry [] l.
(* fold_right inserts the last element first, so equal keys keep their original order *)

Fixpoint expired_eqb (obs : list (Z * record * list record)) (ex : list ment) : bool :=
  match obs, ex with
  | [], [] => true
  | (t, r, _) :: obs', e :: ex' => (t =? me_expiry e) && same_record r (me_rec e) && expired_eqb obs' ex'
  | _, _ => false
  end.

(* the announced record must be gone from the cache when its expiry is announced *)
Definition announced_gone (obs : list (Z * record * list record)) : bool :=
  forallb (fun '(_, r, snap) => negb (existsb (same_record r) snap)) obs.

(* one warning: find the live entry, check it against the schedule, count it *)
Fixpoint note_warning (t : Z) (r : record) (live : list ment) : option (list ment) + N :=
  match live with
  | [] => inr 4%N
  | e :: live' =>
      if same_record r (me_rec e) then
        if me_expiry e <=? t then inr 6%N else
        match nth_error fractions (me_warned e) with
        | None => inr 5%N
        | Some f => let d := t - me_t0 e - me_ttl e * f in
                    if (0 <=? d) && (d <? JITTER) then inl (Some (mkMent (me_rec e) (me_t0 e) (S (me_warned e)) :: live'))
                    else inr 5%N
        end
      else match note_warning t r live' with
           | inl (Some l) => inl (Some (e :: l))
           | inl None => inl None
           | inr c => inr c
           end
  end.

Fixpoint note_warnings (ws : list (Z * record)) (live : list ment) : list ment + N :=
  match ws with
  | [] => inl live
  | (t, r) :: ws' => match note_warning t r live with
                     | inl (Some l) => note_warnings ws' l
                     | inl None => inr 4%N
                     | inr c => inr c
                     end
  end.

(* every warning whose latest possible instant lies strictly before [upto] has been raised *)
Definition warnings_complete (upto : Z) (e : ment) : bool :=
  forallb (fun '(k, f) => (upto <=? me_t0 e + me_ttl e * f + (JITTER - 1)) || (k <? me_warned e)%nat)
          (combine (seq 0 4) fractions).

Definition times_within (lo hi : Z) (outs : list cout) : bool :=
  forallb (fun o => match o with OSig t _ _ => (lo <=? t) && (t <=? hi) | OLookup _ => true end) outs.

(* exact advance to t: expiries in order of expiry instant, warnings on schedule and complete *)
Definition mon_adv (s : mstate) (t : Z) (outs : list cout) : mres :=
  let now := ms_now s in
      if t <? now then MBad 10 else
      if existsb is_lookup outs then MBad 1 else
      if negb (times_within now t outs) then MBad 9 else
      let due := filter (fun e => me_expiry e <=? t) (ms_live s) in
      let obs := filter_map out_expired outs in
      if negb (expired_eqb obs (sort_by_expiry due)) then MBad 2 else
      if negb (announced_gone obs) then MBad 3 else
      match note_warnings (filter_map out_warning outs) (ms_live s) with
      | inr c => MBad c
      | inl live1 =>
          if negb (forallb (fun e => warnings_complete (if me_expiry e <=? t then me_expiry e else t) e) live1)
          then MBad 7 else
          MOk (mkMstate t (filter (fun e => negb (me_expiry e <=? t)) live1))
      end.

Definition mon_step (s : mstate) (o : cop) (outs : list cout) : mres :=
  let now := ms_now s in
  match o with
  | CAdd r j =>
      if existsb is_lookup outs || negb (length (filter_map out_warning outs) =? 0)%nat then MBad 1 else
      if negb (times_within now now outs) then MBad 9 else
      let removed := filter (fun e => spec_match r (me_rec e)) (ms_live s) in
      let kept := filter (fun e => negb (spec_match r (me_rec e))) (ms_live s) in
      let obs := filter_map out_expired outs in
      if negb (expired_eqb (map (fun '(t, x, sn) => (t, x, sn)) obs)
                 (if (r_ttl r =? 0)%N then map (fun e => mkMent (me_rec e) (now - 1000 * me_ttl e) 0) removed else []))
      then MBad 2 else
      if negb (announced_gone obs) then MBad 3 else
      MOk (mkMstate now (kept ++ (if (r_ttl r =? 0)%N then [] else [mkMent r now 0])))
  | CAdv t => mon_adv s t outs
  | CAdvB t =>
      (* everything due strictly before t has happened; what is due exactly at t is still pending, so the
         records expiring at t are still held and their expiry is owed to the next advance *)
      if t <=? now then (if (length outs =? 0)%nat then MOk s else MBad 1) else
      match mon_adv s (t - 1) outs with
      | MOk s' => MOk (mkMstate t (ms_live s'))
      | bad => bad
      end
  | CLate _ => MBad 10
  | CLookup name type =>
      match outs with
      | [OLookup rs] =>
          if records_eqb rs (map me_rec (filter (fun e => spec_lookup_match name type (me_rec e)) (ms_live s)))
          then MOk s else MBad 8
      | _ => MBad 1
      end
  end.

(* index of the first rejected operation and the code, or None when everything is accepted *)
Fixpoint mon_run (s : mstate) (k : N) (ops : list cop) (outs : list (list cout)) : option (N * N) :=
  match ops, outs with
  | [], _ => None
  | o :: ops', og :: outs' =>
      match mon_step s o og with
      | MOk s' => mon_run s' (k + 1)%N ops' outs'
      | MBad c => Some (k, c)
      end
  | _ :: _, [] => Some (k, 1%N)
  end.

Definition mon_cache (ops : list cop) (outs : list (list cout)) : option (N * N) := mon_run mstate0 0%N ops outs.
