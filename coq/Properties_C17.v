(* Properties_C17.v — a registered hostname answers address questions for its own name. *)
From QV Require Import Base Fields SrcFacts Msg SrcDecisions Sim Hostname HostnameProofs HostnameInv HostnameAccept.
Local Open Scope Z_scope.

(* For every interface table, every source address and every message: the hostname object's reaction to a
   query equals the declarative specification spec_host_reply: nothing when unregistered or when no A/AAAA
   question for the hostname can be answered; otherwise exactly one reply carrying, per such question in order,
   an address of the asked family of the first interface that has an entry whose subnet contains the source
   and an address of that family; addressed to the mDNS group of the querier's family for port 5353, otherwise
   to the querier's address and port, with the query's transaction ID and the response flag set. *)
Theorem C17_answers now h m :
  m_response m = false ->
  host_handle now h (EvMsg m) =
  (h, match spec_host_reply (h_reg h) (h_name h) (h_ifaces h) m with Some r => [ESend r] | None => [] end).
Proof. exact (host_query_reply now h m). Qed.
Print Assumptions C17_answers.

(* the address selection loops of generateRecord in closed form *)
Theorem C17_address_selection src type ifs : gen_ifaces src type ifs = spec_address src type ifs.
Proof. exact (gen_ifaces_spec src type ifs). Qed.
Print Assumptions C17_address_selection.

(* response messages are never answered *)
Theorem C17_responses_not_answered now h msg m : m_response msg = true -> ~ In (ESend m) (snd (host_handle now h (EvMsg msg))).
Proof.
  intros H. cbn [host_handle]. rewrite H. destruct (h_reg h); cbn [snd]; [intros []|apply host_records_no_send].
Qed.
Print Assumptions C17_responses_not_answered.

Example C17_example :
  let ifs := [[(A4 2130706433, 8)]; [(A4 3221225986, 24); (A6 [253;0;0;0;0;0;0;0;0;0;0;0;0;0;0;2]%N, 64)]] in
  let q := mkQuery (Some [118;109;46;108;111;99;97;108;46]%N) 28 false in
  let m := mkMessage (A4 3221225990) 5353 7 false false [q] [] in
  spec_host_reply true [118;109;46;108;111;99;97;108;46]%N ifs m <> None /\
  spec_host_reply true [118;109;46;108;111;99;97;108;46]%N ifs (mkMessage (A4 167772161) 5353 7 false false [q] []) = None.
Proof. vm_compute. split; [discriminate|reflexivity]. Qed.

(* over whole runs: the acceptor that judges every reply of a registered hostname object against spec_host_reply
   (rejection code 7) - and every other output against C08 - accepts every run of the model *)
Theorem C17_every_run_is_accepted fuel rawlocal ifs ops :
  Forall (HostnameAccept.op_ok fuel) ops -> mon_hostname rawlocal ifs ops (host_run fuel rawlocal ifs ops) = None.
Proof. exact (host_run_accepted fuel rawlocal ifs ops). Qed.
Print Assumptions C17_every_run_is_accepted.
