#!/bin/sh
# builds /repo (working tree) with its test suite in a scratch directory and runs the 24 tests
D=${1:-/tmp/qm_tests}
cmake -S /repo -B "$D" -G Ninja -DBUILD_TESTS=ON >/dev/null && cmake --build "$D" -j16 >/dev/null && ctest --test-dir "$D" -j8 --timeout 900 2>&1 | tail -12
