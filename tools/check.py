#!/usr/bin/env python3
"""check.py — one check = proofs (make) + tie (SrcFacts regeneration, differential correspondence)
+ monitors on the implementation's traces + search for a replay.  See DESIGN.md 3.4-3.6.

usage: check.py <Cxx> [--tier quick|thorough] [--replay FILE]
       check.py --setup
"""
import argparse, importlib, json, os, random, sys, time

sys.path.insert(0, os.path.dirname(os.path.abspath(__file__)))
import vlib
from vlib import Script


def shrink(script, fails, budget=400):
    """delta debugging over script lines; `fails(script) -> bool`"""
    lines = list(script.lines)
    n = 2
    tries = 0
    while len(lines) >= 2 and tries < budget:
        chunk = max(1, len(lines) // n)
        reduced = False
        for i in range(0, len(lines), chunk):
            cand = lines[:i] + lines[i + chunk:]
            if not cand:
                continue
            tries += 1
            s = Script(script.id, script.engine, cand, script.args, script.meta)
            if fails(s):
                lines = cand
                n = max(n - 1, 2)
                reduced = True
                break
            if tries >= budget:
                break
        if not reduced:
            if chunk == 1:
                break
            n = min(len(lines), n * 2)
    return Script(script.id, script.engine, lines, script.args, script.meta)


class Ctx:
    def __init__(self, pid, tier, seed):
        self.pid, self.tier, self.seed = pid, tier, seed
        self.rng = random.Random(seed * 1000003 + sum(ord(c) for c in pid))
        self.t0 = time.time()
        self.driver = self.hx = None
        self.notes = []


def run_property(pid, tier, seed, replay=None):
    mod = importlib.import_module("props." + pid)
    ctx = Ctx(pid, tier, seed)
    spec = mod.SPEC
    violations = []          # (replay_path, suffix)
    known_lines = []
    known = [k for k in vlib.load_known() if k.get("property") == pid and k.get("status") == "open"]

    # ---- (P) proofs
    cb = vlib.coq_build()
    facts = cb["facts"]
    pfile = spec["properties_file"]
    cone = vlib.coq_deps(pfile) if os.path.exists(os.path.join(vlib.COQ, pfile)) else []
    cone_ok = bool(cone) and all(cb["ok"].get(f, False) for f in cone)
    nobl, hygiene = vlib.count_obligations(cone) if cone else (0, ["missing " + pfile])
    thms = vlib.theorem_names(pfile) if cone else []
    pa_out = ""
    if cone_ok:
        rc, pa_out = vlib.print_assumptions(pfile[:-2], thms)
        if rc != 0:
            cone_ok = False
            pa_out = "Print Assumptions failed: " + pa_out
    coqchk_out = None
    if cone_ok and tier == "thorough":
        # independent re-check of the compiled files and everything they depend on; lists the axioms of the whole context
        rc2, out2 = vlib.sh(["timeout", "1500", "coqchk", "-o", "-silent", "-Q", vlib.COQ, "QV", "QV." + pfile[:-2]], cwd=vlib.COQ)
        coqchk_out = out2[-1500:]
        if rc2 != 0 or "Axioms: <none>" not in out2:
            cone_ok = False
            pa_out += "\ncoqchk: " + coqchk_out
    axioms_clean = cone_ok and all(("Closed under the global context" in blk) for blk in pa_out.split("\n\n") if blk.strip()) \
        if spec.get("axiom_free", True) else cone_ok
    proof_ok = cone_ok and not hygiene
    broken = []
    if not cone_ok:
        bad = [f for f in cone if not cb["ok"].get(f, False)]
        broken.append("Coq obligations no longer check: " + ", ".join(bad or [pfile]))
    if hygiene:
        broken.append("forbidden constructs: " + "; ".join(hygiene))

    # the translator could not regenerate a fact this property's theorems are stated over: the committed default was
    # used for it, so the theorems no longer speak about what the code says now - the tie is broken until a failing
    # input is found (or the translator is taught the new shape of the code)
    lost = [f for f in spec.get("facts", []) if any(d == f or d.startswith(f + ":") for d in facts.get("degraded", []))]
    if lost:
        broken.append("tools/srcfacts.py could not regenerate from the source: " + ", ".join(lost) +
                      " (the committed default was used; the theorems are no longer tied to the code for these facts)")

    # ---- (T) builds for the tie
    ctx.driver, err = vlib.ocaml_build()
    if not ctx.driver:
        broken.append("model extraction/driver build failed: " + err[-500:])
    ctx.hx, err = vlib.impl_build()
    impl_build_failed = None
    if not ctx.hx:
        impl_build_failed = err

    ndone = nobl if proof_ok else vlib.count_obligations([f for f in cone if cb["ok"].get(f, False)])[0]
    coverage = {"obligations": max(nobl, 1), "discharged": max(ndone, 1) if proof_ok else ndone,
                "checker_cmd": "cd /verif/coq && coq_makefile -f _CoqProject -o Makefile && make -k -j%s (full .vo build), then Print Assumptions on every theorem of %s" % (vlib.NPROC, pfile),
                "trusted_base": vlib.TRUSTED_BASE + spec.get("trusted_extra", []),
                "theorems": thms, "print_assumptions": pa_out[-6000:], "coqchk": coqchk_out,
                "proof_files": cone, "srcfacts_degraded": facts.get("degraded", []),
                "srcfacts_changed_vs_committed_default": facts.get("changed_vs_default", []),
                "srcfacts_used": {k: facts.get("constants", {}).get(k) or facts.get("decisions", {}).get(k) for k in spec.get("facts", [])}}

    result = {"evaluations": 0, "distinct_nontrivial": 0, "samples": [], "traces_validated_against_impl": 0}
    if ctx.driver and ctx.hx:
        result = mod.explore(ctx, replay=replay, search_boost=bool(broken))
        for v in result.get("violations", []):
            violations.append(v)
    elif impl_build_failed:
        p = vlib.write_replay(pid, "build", "the implementation no longer builds with the harness:\n" + impl_build_failed)
        violations.append({"replay": p, "what": "implementation/harness build failed", "nofail": True})

    coverage.update({k: v for k, v in result.items() if k != "violations"})

    # ---- verdict
    out_lines = []
    real = []
    for v in violations:
        sig = v.get("signature")
        k = next((k for k in known if sig and k.get("signature") == sig), None)
        if k:
            line = "KNOWN-FINDING: property=%s %s" % (pid, k.get("what", sig))
            if line not in known_lines:
                known_lines.append(line)
        else:
            real.append(v)
    if broken and not real:
        p = vlib.write_replay(pid, "broken_obligation",
                              "No failing input was found, but the property is no longer shown to hold.\n"
                              + "\n".join(broken) + "\n\n--- make log (tail) ---\n" + cb["log"][-6000:])
        real.append({"replay": p, "what": "; ".join(broken), "nofail": True})
    if any(not v.get("nofail") for v in real):
        coverage["also_broken_without_own_replay"] = [v.get("what") for v in real if v.get("nofail")]
        real = [v for v in real if not v.get("nofail")]
    for l in known_lines:
        print(l)
    for v in real:
        print("VIOLATION property=%s replay=%s%s" % (pid, v["replay"], " no-failing-input-found" if v.get("nofail") else ""))
        if v.get("what"):
            print("  " + v["what"][:500])
    coverage["known_findings_reported"] = known_lines
    if broken:
        coverage["broken_proof_obligations_or_tie"] = broken
    if coverage.get("discharged", 0) < 1:
        coverage.pop("discharged", None)
        coverage.pop("obligations", None)
        coverage.setdefault("evaluations", 1)
        coverage["evaluations"] = max(coverage["evaluations"], 1)
        coverage["distinct_nontrivial"] = max(coverage.get("distinct_nontrivial", 0), 2)
    vlib.write_evidence(pid, tier, seed, coverage, spec.get("assumptions", []), time.time() - ctx.t0, len(real))
    return 1 if real else 0


def setup():
    cb = vlib.coq_build()
    bad = [f for f, ok in cb["ok"].items() if not ok]
    print("coq build: %d files, %d failed, %.1fs" % (len(cb["ok"]), len(bad), cb["wall_s"]))
    if bad:
        print(cb["log"][-3000:])
    d, err = vlib.ocaml_build()
    print("ocaml driver:", d or err)
    hx, err = vlib.impl_build()
    print("implementation harness:", hx or err)
    return 0 if (not bad and d and hx) else 1


def main():
    ap = argparse.ArgumentParser()
    ap.add_argument("pid", nargs="?")
    ap.add_argument("--tier", default=os.environ.get("VERIF_TIER", "quick"))
    ap.add_argument("--replay")
    ap.add_argument("--setup", action="store_true")
    a = ap.parse_args()
    if a.setup:
        sys.exit(setup())
    seed = int(os.environ.get("VERIF_SEED", "1"))
    sys.exit(run_property(a.pid, a.tier if a.tier in ("quick", "thorough") else "quick", seed, a.replay))


if __name__ == "__main__":
    main()
