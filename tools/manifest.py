#!/usr/bin/env python3
"""regenerates MANIFEST.json from the table below (kept here so that the file stays valid and consistent)"""
import json, os
V = os.path.dirname(os.path.dirname(os.path.abspath(__file__)))

NOTE = ("Trusted: Coq 8.16.1 kernel + vm_compute; extraction (ExtrOcamlBasic only) and OCaml 4.13.1; tools/srcfacts.py; "
        "the hand-written Gallina models (validated on every run by differential execution against the real library "
        "built from /repo's working tree with ASan+UBSan under a virtual clock); the OCaml driver and the C++ harness; "
        "Qt 5.15.8 semantics as modelled. No axioms: every theorem prints 'Closed under the global context'.")

CHECKS = {
 "C04": ("Theorems (Properties_C04.v, partial): the hops of the convergence argument on the tied component models - (1) for EVERY history of a "
         "provider, a remote Cache (the library's addRecord) hearing all its multicast responses in order, without loss or expiry, holds "
         "exactly the provider's current PTR/SRV/TXT while it is confirmed and nothing otherwise "
         "(C04_remote_cache_holds_the_served_records_partial = C13 listener invariant composed with the cache's replacement rule); "
         "(2) the announcement is the response [PTR; SRV; TXT] of the published records; (3) a browser of that type holding exactly those "
         "records reports the instance as added with the provider's type, name, SRV target, port and attributes; C01/C02 give the codec "
         "hop. Composition proved over EVERY history for one provider and any number of passive browsers on a once-heard, duplicating or "
         "arbitrarily delayed FIFO link (NetPair.v, NetLag.v), for two providers of unrelated types (NetTwo.v) and for any number of "
         "providers whose types are unrelated to the browsers' type, in any interleaving "
         "(C04_browsers_follow_their_provider_among_many_partial; symmetric form with browsers of any of the types: C04_every_browser_follows_its_provider_partial; NetMany.v). Several instances of one type in one cache, active "
         "browsers and expiry inside the history are not mechanised; the end-to-end statement is also "
         "decided per run: simulated networks of 1..4 real provider stacks and 1..3 real browsers exchange packets through the real "
         "toPacket/fromPacket with per-link delays, loop-back and duplication (incl. sequential histories in which every provider "
         "vanishes and expires before the next starts); after draining every browser's view must equal the services offered by the "
         "live providers of its type.",
         "DESIGN.md section 4 (C04)", "Rocq proofs of the hops (provider history -> remote cache content; announcement -> report; codec round trip) and of their composition over all histories and interleavings of providers of unrelated types + simulated networks of the real stacks judged against the script's ground truth"),
 "C09": ("Theorems (Properties_C09.v): C09_incumbent_keeps_its_hostname (HostNet.v) - over ALL schedules of a two-host network without loss "
         "or delay, an incumbent registered under n that can answer the newcomer's source (C17 condition) and does not re-assert keeps the "
         "newcomer from ever registering n, whatever the newcomer does (probes, conflicts, registrations, re-assertions): invariant 'B holds "
         "n unregistered => its probe or A's conflicting answer is in flight'; C09_hostname_defence_round - one round, for every "
         "interface table and local source; "
         "C09_service_names_refuted: the service-name half is false of the faithful model (a confirmed provider is silent on the "
         "prober's ANY question) - witness by computation. Per run: networks of 2..5 real participants wanting the same host name and "
         "instance name, started one after another with link delays up to 900 ms; registered host names and served instance names must "
         "be pairwise distinct. Two open known findings are reported as KNOWN-FINDING (service names undefended; hostname undefended "
         "during its own periodic re-probe).",
         "DESIGN.md section 4 (C09)", "Rocq proof of the defence round + refutation witness for service names + simulated networks of the real stacks"),
 "C05": ("Theorems (Properties_C05.v) about the faithful model of cache.cpp: invariant of every reachable cache; closed form of an exact "
         "advance (each entry keeps exactly its triggers later than t, independently of all other entries); exactly one expiry "
         "notification at exactly add-time + TTL s; lookup = filter over stored entries. Tie: constants and the match/lookup "
         "conditions regenerated from cache.cpp; model vs real Cache compared on generated and exhaustively enumerated histories "
         "under virtual time; an independent reference cache (monitor) judges the implementation's traces.",
         "DESIGN.md section 4 (C05/C06/C18)", "Rocq proof of cache model (timer elimination, closed-form advance) + SrcFacts regeneration + differential correspondence + reference-cache monitor"),
 "C06": ("Theorems (Properties_C06.v): the match condition read from cache.cpp equals the property's replacement rule; an addition "
         "removes exactly the matching entries and leaves every other entry untouched and in order; goodbyes announce exactly what "
         "they remove and are never stored; no duplicates and no TTL-0 record in any reachable cache (arbitrary, even late, firings). "
         "Tie and monitor as for C05.",
         "DESIGN.md section 4 (C05/C06/C18)", "Rocq proof of addRecord's shape and reachable-state invariants + SrcFacts decision-expression regeneration + differential correspondence + monitor"),
 "C01": ("Theorems (Properties_C01.v, over EncoderProofs.v / EncoderMsg.v): C01_packet_conformant - for every well-formed message (16-bit id; "
         "names of 1.. labels of 1..63 bytes; A, AAAA, PTR, SRV, TXT, NSEC records with in-range fields; uncompressed size <= 16 KiB) the "
         "bytes of to_packet satisfy MessageAt, the RFC 1035/6762 wire format stated as a relation independent of the library (header "
         "counts, rdlength, per-type rdata layout, every compression pointer targeting an earlier offset where the remaining labels are "
         "encoded); C01_decode_encode - the library's own decoder applied to those bytes returns the message (sender address/port cleared, "
         "each record reduced to name, type, flush bit, TTL and the data of its type). Proof: compression-map invariant MapOK re-established "
         "by writeName, threaded through records, questions and the message. Tie: the model's to_packet is compared byte for byte with the "
         "real toPacket on generated well-formed messages; an independent strict decoder and the real fromPacket must read the real bytes back.",
         "DESIGN.md section 4 (C01)", "Rocq proof: encoder output satisfies the relational wire spec (all layers), composed with decoder completeness + byte-exact differential correspondence + independent reference decoder"),
 "C02": ("Theorems (Properties_C02.v, over DecoderComplete.v / DecoderMsg.v): C02_decoder_complete - for every packet of at most 65535 bytes and "
         "every message m with MessageAt p m (any legal placement of compression pointers incl. into earlier rdata, chains of any length, "
         "any label bytes; any TXT string layout incl. empty strings; records of unsupported types with arbitrary rdata of the declared "
         "length; counts distributed over the three sections in any way) decode p = Ok m; C02_record_complete - one record of any type, the "
         "cursor ending exactly behind its rdata. Tie: packets from an independent reference encoder choosing among all legal encodings are "
         "decoded by the real fromPacket and by the model; both must return the source message.",
         "DESIGN.md section 4 (C02)", "Rocq proof: decoder completeness w.r.t. the relational wire spec (all layers) + differential correspondence on reference-encoder packets"),
 "C03": ("Theorems (Properties_C03.v): for every buffer content, length <= 65535 and start offset, fromPacket / parseRecord / parseName of "
         "the faithful model never perform a raw read at index >= length (every read the C++ does through constData() is modelled as "
         "Fault when out of bounds) and never exhaust fuel length+1 (termination bound); results depend only on the bytes inside the "
         "buffer; pointers are followed strictly backwards; forward/self pointers and reserved label types are rejected. Tie: model vs "
         "real decoder (ASan+UBSan, exact-size heap buffers, watchdog) on exhaustive short strings, mutants and random buffers up to 65535 "
         "bytes; every returned message is re-encoded under ASan. Partial in the sense that the C++ object code itself is not verified.",
         "DESIGN.md section 4 (C03)", "Rocq proof of decoder memory safety/termination/extensionality on an instrumented model + sanitizer-checked differential correspondence"),
 "C07": ("Theorem C07_prober (Properties_C07.v): for every probed record and every schedule of deliveries and clock advances (exact, "
         "message-before-timer at equal instants, late firings) the prober model's outputs are accepted by the C07 acceptor - a complete "
         "reference for what a prober may send: confirmation only >= 2000 ms after the latest probe for exactly that name with no "
         "conflicting response since, candidates base, base-2, ... advancing once per conflicting record, one confirmation, silence "
         "afterwards. Conflict condition and probe wait come from prober.cpp. Tie: model vs real Prober under virtual time on all "
         "schedules of <= 3 (thorough 4) events on the deadline grid plus random ones; the extracted acceptor judges the implementation.",
         "DESIGN.md section 4 (C07)", "Rocq coupling proof (model run accepted by executable acceptor) + SrcFacts regeneration + differential correspondence under virtual time"),
 "C08": ("Theorems (Properties_C08.v, over HostnameInv.v): [hreach] is every state the hostname object reaches under the virtual-time kernel - any "
         "messages, any clock advances, timers fired at or after their deadline - and every state of the executable model after any script "
         "is in it (C08_model_runs_are_reachable). In every such state: registered => hostname = value of the last hostnameChanged "
         "(C08_registered_name_is_last_notified); the registration timer can only be due when the latest probe was for exactly the current "
         "name and >= registration_wait_ms old, firing it registers that name, and no other transition sets the flag "
         "(C08_registration_is_probe_backed, C08_only_registration_timer_registers); a conflicting response while unregistered moves to a "
         "strictly larger suffix, probes it at once and re-arms the full wait (C08_conflict_restarts_wait); every broadcast is an A+AAAA "
         "probe (C08_broadcasts_are_probes); an unregistered object never replies (C08_unregistered_never_replies_partial). Not proved: that "
         "the executable acceptor mon_hostname accepts every model run (it is run instead, on model and implementation traces). Tie: "
         "registration_wait_ms / rebroadcast_ms and the conflict / question decisions regenerated from hostname.cpp; model vs real Hostname "
         "under virtual time over histories spanning several re-probe cycles; the extracted acceptor judges the implementation traces.",
         "DESIGN.md section 4 (C08)", "Rocq invariant proof over all reachable states of the hostname model + executable acceptor on implementation traces + differential correspondence under virtual time"),
 "C10": ("Theorems (Properties_C10.v): C10_srv_targets_registered - in every state of the provider/hostname/prober composite reachable by any "
         "sequence of handler invocations (any message, any timer at any instant, update, destroy) every SRV record in every response "
         "sent has a target that is empty or a name under which the hostname object actually became registered; C10_mute_until_confirmed "
         "+ C10_silent_until_confirmed - a provider that is not confirmed sends no response, multicast or unicast; "
         "C10_only_a_completed_probe_confirms - the confirmed flag is set only by the completion of a pending probe; "
         "C10_confirmed_means_verified - confirmed => a service was supplied and the SRV proposal has a (registered) target. 'Records "
         "carry the confirmed name' and 'goodbyes name announced records' follow from the C13 listener invariant; all clauses are also "
         "decided per run by the acceptor mon_provider (codes 10-14) on implementation traces.",
         "DESIGN.md section 4 (C10)", "Rocq invariant proofs over all reachable composite states + executable acceptor + differential correspondence under virtual time"),
 "C11": ("Theorem C11_answers (Properties_C11.v): for every provider state and every message, what onMessageReceived sends equals the "
         "declarative specification spec_prov_reply (question matching, known-answer suppression, PTR implies SRV+TXT, single reply, "
         "reply addressing); the matching conditions are regenerated from provider.cpp and Record::operator== is tied to same "
         "name/type/data. Tie: model vs real Provider on generated query messages; the acceptor compares the implementation's replies "
         "with the specification.",
         "DESIGN.md section 4 (C11)", "Rocq proof of functional equality with a declarative reply specification + SrcDecisions regeneration + differential correspondence"),
 "C12": ("Theorems (Properties_C12.v, over ProviderListener.v / ProviderConverge.v): C12_quiescent_serves_last_request - in every state of the "
         "hostname+provider+prober composite reached by ANY sequence of handler invocations (messages, any timer, update, destroy; one "
         "provider object at a time), whenever no probe is in flight and the provider has learnt a host name, it is confirmed and serves "
         "exactly the last supplied service: PTR named its type, SRV with its port, TXT with its attributes, all under the requested "
         "name (dots->dashes) or an alternative name-k of it, SRV target = the proposal's (by C10 a registered host name), and these are "
         "exactly the records a passive listener holds; C12_proposals_carry_last_request; C12_serving_targets_current_hostname - under the "
         "kernel's timer discipline (states creach, closed under Sim.step: C12_model_runs_are_creachable) a provider that serves while "
         "the hostname is registered points its SRV at the currently registered host name (invariants: only the three known timers, "
         "re-assertion timer only while registered, proposal target = last registered name). 'First free' alternative is C07. The "
         "remaining gap is the open finding created-during-reassertion (a provider that never learnt a host name serves nothing). Tie + per run: acceptor final "
         "check (codes 30-35 incl. served name not taken) on implementation traces over histories of updates, conflicts, re-probes and "
         "structured scenarios.",
         "DESIGN.md section 4 (C12/C13)", "Rocq invariant proof over all handler sequences of the provider composite + executable acceptor with end-of-history check + differential correspondence under virtual time"),
 "C13": ("Theorems (Properties_C13.v, over ProviderListener.v): a passive listener applying the RFC 6762 rules (flush bit replaces name+type, "
         "equal record replaced, TTL 0 removes) to the provider's multicast responses holds, after EVERY handler invocation of EVERY "
         "history of the composite, exactly the provider's current PTR, SRV and TXT records (all with nonzero TTL) while the provider "
         "exists and is confirmed (C13_listener_holds_exactly_the_served_records) and nothing otherwise, in particular after destruction "
         "(C13_listener_holds_nothing_otherwise): every change of name, type, target, port or attributes is preceded by a goodbye or "
         "replaces the old data. Invariant CInv: record shapes, instance-name structure label.type through prober candidates, pending "
         "prober relation. Handler-level lemmas for farewell / re-confirmation / flush bits. C13_multicasts_never_mix_goodbye_and_announcement_partial "
         "(ProviderUniform.v): every multicast response names its records all with TTL 0 or all live. Tie + per run: acceptor codes 40-44 on "
         "implementation traces (44: a service multicast mixing withdrawn and live records).",
         "DESIGN.md section 4 (C12/C13)", "Rocq invariant proof over all handler sequences of the provider composite (ghost listener) + executable acceptor with reference listener + differential correspondence under virtual time"),
 "C14": ("Theorems (Properties_C14.v, over BrowserInv.v): C14_life_cycles - in any world (any number of browsers of any types, private or "
         "shared caches, any cache content) a browser that has nothing added, followed through ANY sequence of handler invocations "
         "(messages, cache and browser timers, API calls), emits notifications that form well-formed life cycles per instance: added only "
         "when not added, updated only when added and different (Service::operator==, tied to service.cpp: every member is compared) from "
         "the last report, removed only when added and naming the last report; every report is of the browser's own type unless it "
         "enumerates; C14_life_cycles_kernel - the same for the signal outputs of every script of the executable model under the "
         "virtual-time kernel (generic SimProofs.run_covers). Handler-level characterisations of updateService / onRecordExpired. Tie: the "
         "real Browser's traces under virtual time equal the model's (QSet order canonicalised) and are judged by the extracted acceptor "
         "mon_browser (codes 50-55) over histories with 1..3 browsers, private/shared caches, both modes.",
         "DESIGN.md section 4 (C14/C15/C19)", "Rocq invariant proof over all handler sequences and kernel runs of the browser model + life-cycle acceptor on implementation traces + differential correspondence (QSet order canonicalised)"),
 "C15": ("Theorems (Properties_C15.v, over BrowserBacked.v): C15_reports_backed - for ANY world (any browsers and caches, shared or private) "
         "and ANY handler invocation, every serviceAdded/serviceUpdated any browser emits is backed by a set of records each of which was "
         "held by a cache before the invocation or delivered by it: a PTR named the service's type, the first SRV of the instance giving "
         "the reported hostname and port, the TXT records whose merge is the reported attributes (the set is one of the contents the "
         "cache passes through while the handler works record by record); by the cache invariant of C05/C06 held records are unexpired "
         "with nonzero TTL; C15_added_implies_srv_held(_runs) - invariant of every world reached by any handler sequence / every script of "
         "the model: an instance a browser has added always has an SRV record in that browser's cache, i.e. it is reported removed within "
         "the handler in which its last SRV record leaves (expiry, goodbye; flush replacements keep an SRV). The staleness clause (no stale "
         "description while a valid PTR points at the instance) is decided per run by mon_browser with a reference RFC 6762 cache (codes 60-64), including all intermediate states "
         "of multi-record messages and simultaneous expiries. One open known finding (shared cache replayed by every browser) is "
         "reported as KNOWN-FINDING.",
         "DESIGN.md section 4 (C15/C19)", "Rocq proof over all worlds and handler invocations (provenance of every report) + reference-cache acceptor on implementation traces + differential correspondence"),
 "C19": ("Theorems (Properties_C19.v, over BrowserTimers.v): C19_question_timer_always_armed - in every state the virtual-time kernel reaches "
         "from the empty world (any messages, API calls creating any number of browsers and caches, clock advances, timers firing at or "
         "after their deadline) a created browser has its question timer in the table with deadline = instant of its latest browse "
         "question + the period read from browser.cpp (<= 60 s): no handler stops, loses or postpones it; C19_question_timer_runs - the "
         "same after every script of the executable model; C19_question_timer_fires - firing sends one PTR question for the type listing "
         "exactly the cached PTRs of that name and re-arms; C19_refresh_warning_slots - a refresh warning reaches every browser attached "
         "to the cache, each asking for the record's name and type; C19_followup_question / _message_shape - after a response's records "
         "are cached, one multicast question asks SRV and TXT for exactly the touched instances that have a PTR of the type but no SRV; "
         "C19_enumerate_all_batch - the batch timer asks one PTR question per newly learnt type and empties the batch. The instants "
         "(refresh at 50/85/90/95 % + 0..19 ms, batching within 100 ms, period) are also decided per run by mon_browser (codes 70-74) over virtual durations of hours.",
         "DESIGN.md section 4 (C15/C19)", "Rocq invariant proof over all kernel-reachable states of the browser model + timing acceptor on implementation traces under virtual time + differential correspondence"),
 "C20": ("Theorem C20_values (Properties_C20.v): for every program of construction, copy, assignment (incl. self-assignment), every "
         "setter (incl. Bitmap::setData with the bitmap's own data()), comparison, reading and destruction, the model of bitmap.cpp on "
         "an abstract heap never reads or frees a block it does not own (no fault, no double free) and prints exactly what the pure "
         "value semantics prints; C20_record_eq: Record::operator== (conjunct list regenerated from record.cpp) is equality of name, "
         "type and every data field, TTL and cache-flush excluded, and the private member list is covered. Tie: the same programs run "
         "on the real classes under ASan (random and all programs of <= 2 (thorough 3) operations over two variables), on the heap "
         "model and on the pure semantics. Partial in that the C++ object code itself is not verified.",
         "DESIGN.md section 4 (C20)", "Rocq refinement proof (abstract heap vs pure values, separation invariant) + SrcFacts field lists + ASan-checked differential correspondence"),
 "C16": ("Theorems (Properties_C16.v, over ResolverProofs.v / ResolverInv.v): the reports a response causes are exactly spec_reports - in record "
         "order the address of every A/AAAA record for exactly the name with nonzero TTL unless already reported (C16_response_reports), read "
         "declaratively as only-valid (C16_reports_only_valid) and every-valid (C16_every_valid_address_reported); over any sequence of "
         "handler invocations, and over every kernel run of the model, everything reported because of responses since creation is "
         "duplicate-free and equals the resolver's memory (C16_never_twice, C16_never_twice_kernel); the zero-delay timer reports exactly "
         "the A/AAAA records the cache returns for the name (C16_cached_addresses_reported); the initial query asks A+AAAA listing exactly "
         "those records; received address records are stored through Cache::addRecord. Not proved: that the acceptor mon_resolver (reference "
         "RFC cache + expected reports) accepts every model run - it is executed on model and implementation traces instead.",
         "DESIGN.md section 4 (C16)", "Rocq proof (closed-form reports, lifetime invariant) + executable acceptor with reference cache + differential correspondence under virtual time"),
 "C17": ("Theorem C17_answers (Properties_C17.v): for every interface table, source address and message, the hostname object's reaction "
         "to a query equals the declarative specification spec_host_reply (first interface containing the source that has an address "
         "of the asked family; reply rule); generateRecord's three loops are proved equal to that closed form. isInSubnet is modelled, "
         "not verified; the tie runs the real Hostname against the machine's interface table with sources inside, at the boundary of "
         "and outside every subnet.",
         "DESIGN.md section 4 (C17)", "Rocq proof of functional equality with a declarative reply specification + differential correspondence on the machine's interface table"),
 "C18": ("Theorems (Properties_C18.v): the schedule written by addRecord is 50/85/90/95 % + jitter then expiry, strictly increasing "
         "(multipliers, jitter bound and 32-bit arithmetic taken from cache.cpp); under exact scheduling the warnings concerning a "
         "record are exactly the pending warning instants <= t of its current schedule, none for a record that is not stored; "
         "re-adding restarts, a goodbye stops. Tie and monitor as for C05.",
         "DESIGN.md section 4 (C05/C06/C18)", "Rocq proof of the trigger schedule and per-record signal stream + SrcFacts regeneration + differential correspondence + monitor"),
}

REASON_TODO = "check not built yet (work in progress; see DESIGN.md section 8 for the order of construction)"


def main():
    assert sorted(CHECKS) == ["C%02d" % i for i in range(1, 21)], "every property C01..C20 must have an entry: %r" % sorted(CHECKS)
    m = {"version": 1,
         "setup_cmd": "python3 tools/check.py --setup",
         "hooks": {"guard": "QMDNSENGINE_VERIF",
                   "enable": "no source hooks are needed: the harness interposes the clock, the timer dispatcher, the RNG primitive and the host name from outside the library (DESIGN.md 3.3)",
                   "baseline_off_cmd": "cmake -G Ninja -S /repo -B /repo/_build -DBUILD_TESTS=ON && cmake --build /repo/_build && ctest --test-dir /repo/_build -j8 --timeout 900",
                   "source_commits": [], "add_only": True},
         "engines": [{"name": "rocq-proof+correspondence", "path": "tools/check.py",
                      "serves_properties": sorted(CHECKS),
                      "kind_free_text": "Coq 8.16 development under coq/ (models, monitors, theorems), regenerated SrcFacts, extracted OCaml driver, C++ harness running the real library under virtual time"}],
         "checks": [], "not_applicable": [],
         "notes": "Genuine defects found by these checks and repaired by fix: commits in /repo are listed in known_findings.json (status fixed)."}
    for pid in sorted(CHECKS):
        text, ref, tech = CHECKS[pid]
        m["checks"].append({"property_id": pid,
                            "quick_cmd": "python3 tools/check.py %s --tier quick" % pid,
                            "thorough_cmd": "python3 tools/check.py %s --tier thorough" % pid,
                            "evidence_file": "/verif/evidence/%s.json" % pid,
                            "replay_cmd_template": "python3 tools/check.py %s --replay {path}" % pid,
                            "engine": "rocq-proof+correspondence",
                            "level_claimed": {"category": "proof", "text": text, "design_ref": ref},
                            "level_note": NOTE, "technique": tech})
    for i in range(1, 21):
        pid = "C%02d" % i
        if pid not in CHECKS:
            m["not_applicable"].append({"property_id": pid, "reason": REASON_TODO})
    with open(os.path.join(V, "MANIFEST.json"), "w") as f:
        json.dump(m, f, indent=1)


if __name__ == "__main__":
    main()
