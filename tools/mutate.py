#!/usr/bin/env python3
"""Mechanical mutants of the library (beside the hand-made seeds): relational / logical operator flips, constant nudges and
statement deletions on sampled lines.  A mutant counts only if the library still builds and the repository's own tests
still pass; it is then applied to /repo, the quick checks of the properties anchored in that file are run, and /repo is
restored.  usage: [MUT_MINUTES=90] mutate.py <n> [seed]   (exclusive use of /repo's working tree; scratch worktree /tmp/wt_mut, removed)"""
import os, random, re, subprocess, sys, json, shutil, time
V = os.path.dirname(os.path.dirname(os.path.abspath(__file__)))
N = int(sys.argv[1]) if len(sys.argv) > 1 else 40
rng = random.Random(int(sys.argv[2]) if len(sys.argv) > 2 else 7)
FILES = {"src/src/cache.cpp": ["C05", "C06", "C18"], "src/src/prober.cpp": ["C07", "C10"], "src/src/hostname.cpp": ["C08", "C17"],
         "src/src/provider.cpp": ["C10", "C11", "C12", "C13"], "src/src/browser.cpp": ["C14", "C15", "C19"],
         "src/src/resolver.cpp": ["C16"], "src/src/dns.cpp": ["C01", "C02", "C03"], "src/src/record.cpp": ["C20", "C06"],
         "src/src/bitmap.cpp": ["C20", "C03"], "src/src/message.cpp": ["C02", "C20", "C17", "C11"], "src/src/service.cpp": ["C20", "C14"]}
OPS = [(r"<=", "<"), (r"(?<![<>=!])<(?![<=])", "<="), (r">=", ">"), (r"==", "!="), (r"!=", "=="), (r"&&", "||"), (r"\|\|", "&&"),
       (r"\btrue\b", "false"), (r"\bfalse\b", "true"), (r"\+\+", "--"), (r"(\d+)\b", None)]
W = "/tmp/wt_mut"
DEADLINE = time.time() + 60 * int(os.environ.get("MUT_MINUTES", "90"))
def sh(cmd, **kw): return subprocess.run(cmd, shell=isinstance(cmd, str), capture_output=True, text=True, **kw)
sh(["git", "-C", "/repo", "worktree", "remove", "--force", W]); sh(["git", "-C", "/repo", "worktree", "add", "--detach", W, "HEAD"])
sh("cmake -S %s -B %s/_b -G Ninja -DBUILD_TESTS=ON && cmake --build %s/_b -j16" % (W, W, W))
cands = []
for f in FILES:
    for i, l in enumerate(open(os.path.join("/repo", f)).read().split("\n")):
        t = l.strip()
        if not t or t.startswith(("//", "*", "/*", "#", "}")) or "Copyright" in l:
            continue
        for k, (pat, rep) in enumerate(OPS):
            for m in re.finditer(pat, l):
                if rep is None:
                    v = int(m.group(1))
                    if v > 100000 or "case" in l: continue
                    cands.append((f, i, m.start(), m.end(), str(v + rng.choice([1, -1]) if v else 1)))
                else:
                    cands.append((f, i, m.start(), m.end(), rep))
        if t.endswith(";") and re.match(r"^(timer|d->timer|registrationTimer|rebroadcastTimer|emit|\+\+|d->|cache->|server->|hostname|services\.|addresses\.|[a-zA-Z]+(Record|Proposed)\.)", t):
            cands.append((f, i, None, None, None))          # delete the statement
rng.shuffle(cands)
rows = []
for f, i, a, b, rep in cands:
    if len(rows) >= N or time.time() > DEADLINE: break
    src = open(os.path.join(W, f)).read().split("\n")
    old = src[i]
    new = (old[:a] + rep + old[b:]) if a is not None else re.sub(r"\S.*", "; // (statement removed)", old, count=1)
    src[i] = new
    open(os.path.join(W, f), "w").write("\n".join(src))
    ok = sh("cmake --build %s/_b -j16" % W).returncode == 0 and sh("ctest --test-dir %s/_b -j8 --timeout 120" % W).returncode == 0
    diff = sh(["git", "-C", W, "diff", "--", "src"]).stdout
    sh(["git", "-C", W, "checkout", "--", "src"])
    if not ok:
        continue
    open("/tmp/mut.diff", "w").write(diff)
    if sh(["git", "-C", "/repo", "apply", "/tmp/mut.diff"]).returncode != 0:
        continue
    res = {}
    try:
        for pid in FILES[f]:
            p = sh([sys.executable, os.path.join(V, "tools", "check.py"), pid, "--tier", "quick"], timeout=1800)
            vio = [x for x in p.stdout.splitlines() if x.startswith("VIOLATION")]
            res[pid] = "input" if any("no-failing-input-found" not in x for x in vio) else ("no-input" if vio else "-")
            if vio:
                break          # flagged: the remaining checks of this file are not needed for the score
    finally:
        sh(["git", "-C", "/repo", "checkout", "--", "."])
    rows.append({"file": f, "line": i + 1, "old": old.strip(), "new": new.strip(), "checks": res,
                 "killed": any(v != "-" for v in res.values())})
    print(json.dumps(rows[-1]), flush=True)
sh([sys.executable, os.path.join(V, "tools", "srcfacts.py")])
sh(["git", "-C", "/repo", "worktree", "remove", "--force", W]); os.path.exists("/tmp/mut.diff") and os.remove("/tmp/mut.diff")
json.dump(rows, open(os.path.join(V, "build", "mutants.json"), "w"), indent=1)
print("mutants passing the repository's tests: %d, flagged: %d, survived: %d" % (len(rows), sum(r["killed"] for r in rows), sum(not r["killed"] for r in rows)))
