#!/usr/bin/env python3
"""srcfacts.py — regenerate coq/SrcFacts.v and coq/SrcDecisions.v from /repo's current sources.

Every fact is (name, file, locator, kind).  When a locator no longer matches (refactoring) the
committed default is used for that fact only and the name is reported in `degraded`; the
correspondence check remains the tie for it.  When a fact parses to a different value the new
value is emitted and the proofs are re-checked against it.

Decision expressions (boolean C++ expressions over a fixed accessor vocabulary) are translated
to Gallina by a small recursive-descent translator.
"""
import json, os, re, sys

REPO = os.environ.get("VERIF_REPO", "/repo")
HERE = os.path.dirname(os.path.abspath(__file__))
COQ = os.environ.get("VERIF_COQ", os.path.join(os.path.dirname(HERE), "coq"))


def read(rel):
    with open(os.path.join(REPO, rel), encoding="utf-8", errors="replace") as f:
        s = f.read()
    # strip comments (strings in these sources never contain // or /*)
    s = re.sub(r"/\*.*?\*/", " ", s, flags=re.S)
    s = re.sub(r"//[^\n]*", " ", s)
    return s


def safe_eval(expr):
    """evaluate an integer constant expression made of literals, * + - ( )"""
    e = expr.strip()
    if not re.fullmatch(r"[0-9a-fA-Fx\s\*\+\-\(\)]+", e):
        raise ValueError("not a constant expression: %r" % expr)
    toks = re.findall(r"0[xX][0-9a-fA-F]+|\d+|[\*\+\-\(\)]", e)

    pos = [0]

    def peek():
        return toks[pos[0]] if pos[0] < len(toks) else None

    def take():
        t = toks[pos[0]]
        pos[0] += 1
        return t

    def atom():
        t = take()
        if t == "(":
            v = add()
            if take() != ")":
                raise ValueError("paren")
            return v
        if t == "-":
            return -atom()
        return int(t, 0)

    def mul():
        v = atom()
        while peek() == "*":
            take()
            v *= atom()
        return v

    def add():
        v = mul()
        while peek() in ("+", "-"):
            if take() == "+":
                v += mul()
            else:
                v -= mul()
        return v

    v = add()
    if pos[0] != len(toks):
        raise ValueError("trailing tokens")
    return v


def func_body(src, header_re):
    """text of the body of the first function whose header matches header_re"""
    m = re.search(header_re, src)
    if not m:
        raise ValueError("function not found: " + header_re)
    i = src.index("{", m.end() - 1) if src[m.end() - 1] != "{" else m.end() - 1
    depth = 0
    for j in range(i, len(src)):
        if src[j] == "{":
            depth += 1
        elif src[j] == "}":
            depth -= 1
            if depth == 0:
                return src[i + 1:j]
    raise ValueError("unbalanced")


def balanced(src, start):
    """src[start] == '(' ; return the text inside the matching parens"""
    assert src[start] == "("
    depth = 0
    for j in range(start, len(src)):
        if src[j] == "(":
            depth += 1
        elif src[j] == ")":
            depth -= 1
            if depth == 0:
                return src[start + 1:j], j
    raise ValueError("unbalanced parens")


def nth_cond(body, keyword, n):
    """the condition of the n-th (0-based) `keyword (` in body"""
    k = -1
    for m in re.finditer(r"\b" + keyword + r"\s*\(", body):
        k += 1
        if k == n:
            return balanced(body, m.end() - 1)[0]
    raise ValueError("no %d-th %s" % (n, keyword))


def guarded_first_cond(loop):
    """the condition under which the first real `if` of a loop body is reached and taken: every leading
    `if (G) { continue; }` / `if (G) continue;` contributes !(G) to the conjunction"""
    guards, pos = [], 0
    while True:
        m = re.search(r"\bif\s*\(", loop[pos:])
        if not m:
            raise ValueError("no if in the loop")
        cond, end = balanced(loop, pos + m.end() - 1)
        tail = loop[end + 1:]
        g = re.match(r"\s*(\{\s*continue\s*;\s*\}|continue\s*;)", tail)
        if not g:
            return "&&".join(["!(%s)" % x for x in guards] + ["(%s)" % cond]) if guards else cond
        guards.append(cond)
        pos = end + 1 + g.end()


def loop_var(loop, cls, default):
    """the name of the variable of a range-for over `cls` objects at the head of `loop` (a renamed loop variable is a
    harmless rewrite: the vocabulary follows it)"""
    m = re.match(r"for\s*\(\s*(?:const\s+)?%s\s*&?\s*(\w+)\s*:" % cls, loop)
    return m.group(1) if m else default


# ---------------------------------------------------------------- decision expressions
class Dec:
    """translate a C++ boolean expression into Gallina, given a vocabulary
    {normalised C++ atom: (gallina term, kind)} with kind in bool,N,bstr,record,addr"""

    def __init__(self, text, vocab):
        self.vocab = {re.sub(r"\s+", "", k): v for k, v in vocab.items()}
        self.s = re.sub(r"\s+", "", text)
        self.i = 0

    def fail(self, why):
        raise ValueError("decision expression outside the grammar (%s) at %d in %r" % (why, self.i, self.s))

    def parse(self):
        t = self.p_or()
        if self.i != len(self.s):
            self.fail("trailing")
        if t[1] != "bool":
            self.fail("not boolean")
        return t[0]

    def p_or(self):
        t = self.p_and()
        while self.s.startswith("||", self.i):
            self.i += 2
            u = self.p_and()
            t = ("(orb %s %s)" % (self.tobool(t), self.tobool(u)), "bool")
        return t

    def p_and(self):
        t = self.p_cmp()
        while self.s.startswith("&&", self.i):
            self.i += 2
            u = self.p_cmp()
            t = ("(andb %s %s)" % (self.tobool(t), self.tobool(u)), "bool")
        return t

    def tobool(self, t):
        if t[1] == "bool":
            return t[0]
        if t[1] == "N":
            return "(negb (N.eqb %s 0%%N))" % t[0]
        self.fail("cannot use %s as bool" % t[1])

    def p_cmp(self):
        t = self.p_unary()
        for op, fn in (("<=", "Z.leb"), ("<", "Z.ltb")):
            if self.s.startswith(op, self.i):
                self.i += len(op)
                u = self.p_unary()
                if t[1] != "Z" or u[1] != "Z":
                    self.fail("ordering of %s and %s" % (t[1], u[1]))
                return ("(%s %s %s)" % (fn, t[0], u[0]), "bool")
        for op in ("==", "!="):
            if self.s.startswith(op, self.i):
                self.i += 2
                u = self.p_unary()
                if t[1] != u[1]:
                    self.fail("kind mismatch %s vs %s" % (t[1], u[1]))
                eq = {"N": "N.eqb", "bstr": "bs_eqb", "record": "record_eqb", "bool": "Bool.eqb",
                      "addr": "addr_eqb", "bytes": "bytes_eqb"}[t[1]]
                e = "(%s %s %s)" % (eq, t[0], u[0])
                if op == "!=":
                    e = "(negb %s)" % e
                return (e, "bool")
        return t

    def p_unary(self):
        if self.s.startswith("!", self.i) and not self.s.startswith("!=", self.i):
            self.i += 1
            t = self.p_unary()
            return ("(negb %s)" % self.tobool(t), "bool")
        return self.p_atom()

    def p_atom(self):
        # longest vocabulary match first
        best = None
        for k in self.vocab:
            if self.s.startswith(k, self.i):
                # must not be followed by an identifier character or '.' / '(' continuing the atom
                nxt = self.s[self.i + len(k):self.i + len(k) + 1]
                if nxt and (nxt.isalnum() or nxt in "_.("):
                    continue
                if best is None or len(k) > len(best):
                    best = k
        if best is not None:
            self.i += len(best)
            return self.vocab[best]
        if self.s.startswith("(", self.i):
            self.i += 1
            t = self.p_or()
            if not self.s.startswith(")", self.i):
                self.fail("expected )")
            self.i += 1
            return t
        m = re.match(r"0[xX][0-9a-fA-F]+|\d+", self.s[self.i:])
        if m:
            self.i += m.end()
            return ("%d%%N" % int(m.group(0), 0), "N")
        self.fail("unknown atom")


TYPES = {"A": ("T_A", "N"), "AAAA": ("T_AAAA", "N"), "ANY": ("T_ANY", "N"), "NSEC": ("T_NSEC", "N"),
         "PTR": ("T_PTR", "N"), "SRV": ("T_SRV", "N"), "TXT": ("T_TXT", "N"),
         "MdnsBrowseType": ("(Some browse_type)", "bstr")}


def rec_vocab(cpp, coq):
    """accessors of a Record expression `cpp` mapped onto the Gallina record term `coq`"""
    return {
        cpp + ".name()": ("(r_name %s)" % coq, "bstr"),
        cpp + ".type()": ("(r_type %s)" % coq, "N"),
        cpp + ".flushCache()": ("(r_flush %s)" % coq, "bool"),
        cpp + ".ttl()": ("(r_ttl %s)" % coq, "N"),
        cpp + ".target()": ("(r_target %s)" % coq, "bstr"),
        cpp + ".address()": ("(r_addr %s)" % coq, "addr"),
        cpp + ".port()": ("(r_port %s)" % coq, "N"),
        cpp: (coq, "record"),
    }


def query_vocab(cpp, coq):
    return {
        cpp + ".name()": ("(q_name %s)" % coq, "bstr"),
        cpp + ".type()": ("(q_type %s)" % coq, "N"),
        cpp + ".unicastResponse()": ("(q_unicast %s)" % coq, "bool"),
    }


def merge(*ds):
    out = dict(TYPES)
    for d in ds:
        out.update(d)
    return out


# ---------------------------------------------------------------- the facts
def facts():
    """returns (constants, decisions, degraded); every entry has a default"""
    consts = []      # (name, coq_type, value_text)
    decisions = []   # (name, binders, body)
    degraded = []

    def const(name, ty, default, getter):
        try:
            v = getter()
        except Exception as e:  # locator no longer matches
            degraded.append("%s: %s" % (name, e))
            v = default
        consts.append((name, ty, v))

    def decision(name, binders, default, getter):
        try:
            body = getter()
        except Exception as e:
            degraded.append("%s: %s" % (name, e))
            body = default
        decisions.append((name, binders, body))

    def N(v):
        return "%d%%N" % v

    def Z(v):
        return "(%d)%%Z" % v

    # --- dns.h type codes
    dns_h = read("src/include/qmdnsengine/dns.h")
    for nm, dflt in (("A", 1), ("AAAA", 28), ("ANY", 255), ("NSEC", 47), ("PTR", 12), ("SRV", 33), ("TXT", 16)):
        const("T_" + nm, "N", N(dflt),
              lambda nm=nm: N(safe_eval(re.search(r"\b%s\s*=\s*([^,}]+)" % nm, dns_h).group(1))))

    # --- dns.cpp masks and flags
    dns = read("src/src/dns.cpp")

    def dns_const(name, dflt, fn_re, rx):
        const(name, "N", N(dflt), lambda: N(safe_eval(re.search(rx, func_body(dns, fn_re)).group(1))))

    dns_const("label_kind_mask", 0xc0, r"bool\s+parseName\s*\(", r"switch\s*\(\s*nBytes\s*&\s*(0x[0-9a-fA-F]+)\s*\)")
    dns_const("label_kind_plain", 0x00, r"bool\s+parseName\s*\(", r"case\s+(0x[0-9a-fA-F]+)\s*:\s*if")
    dns_const("label_kind_pointer", 0xc0, r"bool\s+parseName\s*\(", r"case\s+(0x[0-9a-fA-F]+)\s*:\s*\{")
    dns_const("pointer_clear_mask", 0xc0, r"bool\s+parseName\s*\(", r"nBytes\s*&\s*~\s*(0x[0-9a-fA-F]+)")
    dns_const("pointer_shift", 8, r"bool\s+parseName\s*\(", r"<<\s*(\d+)\s*\)\s*\|\s*nBytes2")
    dns_const("pointer_flag16", 0xc000, r"void\s+writeName\s*\(", r"\|\s*(0x[0-9a-fA-F]+)\s*\)")
    dns_const("class_flush_mask", 0x8000, r"bool\s+parseRecord\s*\(", r"setFlushCache\s*\(\s*class_\s*&\s*(0x[0-9a-fA-F]+)")
    dns_const("class_flush_word", 0x8001, r"void\s+writeRecord\s*\(", r"flushCache\s*\(\s*\)\s*\?\s*(0x[0-9a-fA-F]+)")
    dns_const("class_plain_word", 1, r"void\s+writeRecord\s*\(", r"flushCache\s*\(\s*\)\s*\?\s*0x[0-9a-fA-F]+\s*:\s*(\d+)")
    dns_const("flags_response_mask", 0x8400, r"bool\s+fromPacket\s*\(", r"setResponse\s*\(\s*flags\s*&\s*(0x[0-9a-fA-F]+)")
    dns_const("flags_truncated_mask", 0x0200, r"bool\s+fromPacket\s*\(", r"setTruncated\s*\(\s*flags\s*&\s*(0x[0-9a-fA-F]+)")
    dns_const("class_unicast_mask", 0x8000, r"bool\s+fromPacket\s*\(", r"setUnicastResponse\s*\(\s*class_\s*&\s*(0x[0-9a-fA-F]+)")
    dns_const("flags_response_word", 0x8400, r"void\s+toPacket\s*\(", r"isResponse\s*\(\s*\)\s*\?\s*(0x[0-9a-fA-F]+)")
    dns_const("flags_truncated_word", 0x200, r"void\s+toPacket\s*\(", r"isTruncated\s*\(\s*\)\s*\?\s*(0x[0-9a-fA-F]+)")
    dns_const("class_unicast_word", 0x8001, r"void\s+toPacket\s*\(", r"unicastResponse\s*\(\s*\)\s*\?\s*(0x[0-9a-fA-F]+)")
    dns_const("aaaa_len", 16, r"bool\s+parseRecord\s*\(", r"offset\s*\+\s*(\d+)\s*>\s*packet\.length\s*\(\s*\)\s*\)\s*\{\s*return\s+false;\s*\}\s*record\.setAddress")

    # --- cache.cpp
    cache = read("src/src/cache.cpp")
    add_body = lambda: func_body(cache, r"void\s+Cache::addRecord\s*\(")

    def mults():
        b = add_body()
        ms = re.findall(r"now\.addMSecs\s*\(\s*record\.ttl\s*\(\s*\)\s*\*\s*(\d+)\s*\+\s*random\s*\)", b)
        if not ms:
            raise ValueError("no trigger multipliers")
        return "[" + "; ".join(Z(int(m)) for m in ms) + "]"

    const("cache_multipliers", "list Z", "[(500)%Z; (850)%Z; (900)%Z; (950)%Z]", mults)
    const("cache_jitter_bound", "Z", Z(20),
          lambda: Z(safe_eval(re.search(r"bounded\s*\(\s*(\d+)\s*\)", add_body()).group(1))))

    def expiry_unit():
        b = add_body()
        if re.search(r"now\.addSecs\s*\(\s*record\.ttl\s*\(\s*\)\s*\)", b):
            return Z(1000)
        m = re.search(r"now\.addMSecs\s*\(\s*record\.ttl\s*\(\s*\)\s*\*\s*(\d+)\s*\)", b)
        if m:
            return Z(int(m.group(1)))
        raise ValueError("no expiry trigger")

    const("cache_expiry_ms_per_s", "Z", Z(1000), expiry_unit)

    # --- timers of the state machines
    prober = read("src/src/prober.cpp")
    const("probe_wait_ms", "Z", Z(2000),
          lambda: Z(safe_eval(re.search(r"timer\.start\s*\(([^;]*)\)\s*;", func_body(prober, r"void\s+ProberPrivate::assertRecord\s*\(")).group(1))))
    hostname = read("src/src/hostname.cpp")
    const("registration_wait_ms", "Z", Z(2000),
          lambda: Z(safe_eval(re.search(r"registrationTimer\.setInterval\s*\(([^;]*)\)\s*;", hostname).group(1))))
    const("rebroadcast_ms", "Z", Z(1800000),
          lambda: Z(safe_eval(re.search(r"rebroadcastTimer\.setInterval\s*\(([^;]*)\)\s*;", hostname).group(1))))
    browser = read("src/src/browser.cpp")
    const("browse_period_ms", "Z", Z(60000),
          lambda: Z(safe_eval(re.search(r"queryTimer\.setInterval\s*\(([^;]*)\)\s*;", browser).group(1))))
    const("service_batch_ms", "Z", Z(100),
          lambda: Z(safe_eval(re.search(r"serviceTimer\.setInterval\s*\(([^;]*)\)\s*;", browser).group(1))))
    resolver = read("src/src/resolver.cpp")
    const("resolver_delay_ms", "Z", Z(0),
          lambda: Z(safe_eval(re.search(r"timer\.start\s*\(([^;]*)\)\s*;", resolver).group(1))))

    # --- mdns.cpp
    mdns = read("src/src/mdns.cpp")
    const("mdns_port", "N", N(5353), lambda: N(safe_eval(re.search(r"MdnsPort\s*=\s*([^;]+);", mdns).group(1))))

    def bytes_lit(s):
        return "[" + "; ".join("%d%%N" % b for b in s.encode()) + "]"

    const("browse_type", "list N", bytes_lit("_services._dns-sd._udp.local."),
          lambda: bytes_lit(re.search(r'MdnsBrowseType\s*\(\s*"([^"]*)"\s*\)', mdns).group(1)))

    def ip4(s):
        a = [int(x) for x in s.split(".")]
        return N((a[0] << 24) | (a[1] << 16) | (a[2] << 8) | a[3])

    const("mdns_group4", "N", N(0xE00000FB), lambda: ip4(re.search(r'MdnsIpv4Address\s*\(\s*"([^"]*)"\s*\)', mdns).group(1)))

    def ip6(s):
        import ipaddress
        return "[" + "; ".join("%d%%N" % b for b in ipaddress.IPv6Address(s).packed) + "]"

    const("mdns_group6", "list N", ip6("ff02::fb"), lambda: ip6(re.search(r'MdnsIpv6Address\s*\(\s*"([^"]*)"\s*\)', mdns).group(1)))

    # --- constructor defaults
    record = read("src/src/record.cpp")
    const("default_ttl", "N", N(3600), lambda: N(safe_eval(re.search(r"\bttl\s*\(\s*(\d+)\s*\)", record).group(1))))

    # --- field lists
    def eq_fields(src, header, prefix):
        body = func_body(src, header)
        m = re.search(r"return\s+(.*?);", body, flags=re.S)
        conj = [c.strip() for c in m.group(1).split("&&")]
        out = []
        for c in conj:
            mm = re.fullmatch(r"d->(\w+)\s*==\s*other\.d->(\w+)", c)
            if not mm or mm.group(1) != mm.group(2):
                raise ValueError("conjunct outside the grammar: " + c)
            out.append(prefix + mm.group(1))
        return "[" + "; ".join(out) + "]"

    def members(path, cls, prefix):
        src = read(path)
        body = func_body(src, r"class\s+%s\s*" % cls)
        out = []
        for mm in re.finditer(r"^\s*(?:[\w:<>,\s\*]+?)\s+(\w+)\s*;", body, flags=re.M):
            out.append(prefix + mm.group(1))
        if not out:
            raise ValueError("no members")
        return "[" + "; ".join(out) + "]"

    R_ALL = "[F_name; F_type; F_flushCache; F_ttl; F_address; F_target; F_nextDomainName; F_priority; F_weight; F_port; F_attributes; F_bitmap]"
    const("record_eq_fields", "list rfield",
          "[F_name; F_type; F_address; F_target; F_nextDomainName; F_priority; F_weight; F_port; F_attributes; F_bitmap]",
          lambda: eq_fields(record, r"bool\s+Record::operator==\s*\(", "F_"))
    const("record_private_fields", "list rfield", R_ALL, lambda: members("src/src/record_p.h", "RecordPrivate", "F_"))
    service = read("src/src/service.cpp")
    const("service_eq_fields", "list sfield", "[S_type; S_name; S_hostname; S_port; S_attributes]",
          lambda: eq_fields(service, r"bool\s+Service::operator==\s*\(", "S_"))
    const("service_private_fields", "list sfield", "[S_type; S_name; S_hostname; S_port; S_attributes]",
          lambda: members("src/src/service_p.h", "ServicePrivate", "S_"))

    # --- decision expressions
    def cache_match():
        b = add_body()
        loop = b[b.index("for"):]
        cond = nth_cond(loop, "if", 0)
        return Dec(cond, merge(rec_vocab("(*i).record", "old"), rec_vocab("record", "new"))).parse()

    decision("cache_match", "(new old : record)",
             "(orb (andb (andb (r_flush new) (bs_eqb (r_name old) (r_name new))) (N.eqb (r_type old) (r_type new))) (record_eqb old new))",
             cache_match)

    def cache_rearm():
        # the tail of addRecord: when is the single-shot timer (re)started for the new record's first trigger
        b = add_body()
        k = b.rindex("if")
        cond = nth_cond(b[k:], "if", 0)
        v = {"d->nextTrigger.isNull()": ("next_null", "bool"), "d->nextTrigger": ("next", "Z"),
             "triggers.at(0)": ("first", "Z"), "now": ("now", "Z")}
        return Dec(cond, v).parse()

    decision("cache_rearm", "(next_null : bool) (first next now : Z)", "(orb next_null (Z.ltb first next))", cache_rearm)

    def cache_passed():
        # onTimeout: a trigger counts as reached when ...
        b = func_body(cache, r"void\s+CachePrivate::onTimeout\s*\(")
        k = [m.start() for m in re.finditer(r"\bfor\s*\(", b)][1]
        cond = nth_cond(b[k:], "if", 0)
        return Dec(cond, {"(*j)": ("trigger", "Z"), "*j": ("trigger", "Z"), "now": ("now", "Z")}).parse()

    decision("cache_trigger_passed", "(trigger now : Z)", "(Z.leb trigger now)", cache_passed)

    def cache_lookup():
        b = func_body(cache, r"bool\s+Cache::lookupRecords\s*\(")
        cond = nth_cond(b, "if", 0)
        v = merge(rec_vocab("entry.record", "r"),
                  {"name.isNull()": ("(bs_is_null name)", "bool"), "name": ("name", "bstr"), "type": ("type", "N")})
        return Dec(cond, v).parse()

    decision("cache_lookup_match", "(name : bstr) (type : N) (r : record)",
             "(andb (orb (bs_is_null name) (bs_eqb (r_name r) name)) (orb (N.eqb type T_ANY) (N.eqb (r_type r) type)))",
             cache_lookup)

    def prober_conflict():
        b = func_body(prober, r"void\s+ProberPrivate::onMessageReceived\s*\(")
        loop = b[b.index("for"):]
        cond = guarded_first_cond(loop)
        return Dec(cond, merge(rec_vocab(loop_var(loop, "Record", "record"), "r"), rec_vocab("proposedRecord", "proposed"))).parse()

    decision("prober_conflict", "(r proposed : record)",
             "(andb (bs_eqb (r_name r) (r_name proposed)) (N.eqb (r_type r) (r_type proposed)))", prober_conflict)

    def hostname_conflict():
        b = func_body(hostname, r"void\s+HostnamePrivate::onMessageReceived\s*\(")
        loop = b[b.index("for"):]
        cond = guarded_first_cond(loop)
        return Dec(cond, merge(rec_vocab(loop_var(loop, "Record", "record"), "r"), {"hostname": ("(Some hostname)", "bstr")})).parse()

    decision("hostname_conflict", "(r : record) (hostname : list N)",
             "(andb (orb (N.eqb (r_type r) T_A) (N.eqb (r_type r) T_AAAA)) (bs_eqb (r_name r) (Some hostname)))",
             hostname_conflict)

    def hostname_question():
        b = func_body(hostname, r"void\s+HostnamePrivate::onMessageReceived\s*\(")
        k = b.index("else")
        loop = b[k:]
        loop = loop[loop.index("for"):]
        cond = guarded_first_cond(loop)
        return Dec(cond, merge(query_vocab(loop_var(loop, "Query", "query"), "q"), {"hostname": ("(Some hostname)", "bstr")})).parse()

    decision("hostname_question", "(q : query) (hostname : list N)",
             "(andb (orb (N.eqb (q_type q) T_A) (N.eqb (q_type q) T_AAAA)) (bs_eqb (q_name q) (Some hostname)))",
             hostname_question)

    def hostname_announce():
        b = func_body(hostname, r"void\s+HostnamePrivate::onRegistrationTimeout\s*\(")
        cond = nth_cond(b, "if", 0)
        tail = b[b.index(cond) + len(cond):]
        if not re.match(r"\s*\)\s*\{?\s*emit\s+q->hostnameChanged\s*\(\s*hostname\s*\)\s*;", tail):
            raise ValueError("the first if of onRegistrationTimeout no longer guards the notification")
        return Dec(cond, {"hostname": ("hostname", "bstr"), "hostnamePrev": ("prev", "bstr")}).parse()

    decision("hostname_announce", "(hostname prev : bstr)", "(negb (bs_eqb hostname prev))", hostname_announce)

    def resolver_filter():
        b = func_body(resolver, r"void\s+ResolverPrivate::onMessageReceived\s*\(")
        loop = b[b.index("for"):]
        cond = guarded_first_cond(loop)
        return Dec(cond, merge(rec_vocab(loop_var(loop, "Record", "record"), "r"), {"name": ("name", "bstr")})).parse()

    decision("resolver_filter", "(r : record) (name : bstr)",
             "(andb (bs_eqb (r_name r) name) (orb (N.eqb (r_type r) T_A) (N.eqb (r_type r) T_AAAA)))",
             resolver_filter)

    def resolver_report():
        b = func_body(resolver, r"void\s+ResolverPrivate::onMessageReceived\s*\(")
        loop = b[b.index("for"):]
        cond = nth_cond(loop, "if", 1)
        tail = loop[loop.index(cond) + len(cond):]
        if not re.match(r"\s*\)\s*\{?\s*emit\s+q->resolved\s*\(", tail):
            raise ValueError("the second if of the record loop no longer guards resolved()")
        rv = loop_var(loop, "Record", "record")
        return Dec(cond, merge(rec_vocab(rv, "r"), {"addresses.contains(%s.address())" % rv: ("known", "bool")})).parse()

    decision("resolver_report", "(r : record) (known : bool)", "(andb (negb (N.eqb (r_ttl r) 0%N)) (negb known))", resolver_report)

    provider = read("src/src/provider.cpp")

    def provider_q(n):
        def g():
            b = func_body(provider, r"void\s+ProviderPrivate::onMessageReceived\s*\(")
            loop = b[b.index("for"):]
            cond = nth_cond(loop, "if", n)
            v = merge(query_vocab(loop_var(loop, "Query", "query"), "q"), rec_vocab("ptrRecord", "ptr"), rec_vocab("srvRecord", "srv"),
                      rec_vocab("txtRecord", "txt"))
            return Dec(cond, v).parse()
        return g

    P_B = "(q : query) (ptr srv txt : record)"
    decision("provider_q_browse", P_B, "(andb (N.eqb (q_type q) T_PTR) (bs_eqb (q_name q) (Some browse_type)))", provider_q(0))
    decision("provider_q_ptr", P_B, "(andb (N.eqb (q_type q) T_PTR) (bs_eqb (q_name q) (r_name ptr)))", provider_q(1))
    decision("provider_q_srv", P_B, "(andb (N.eqb (q_type q) T_SRV) (bs_eqb (q_name q) (r_name srv)))", provider_q(2))
    decision("provider_q_txt", P_B, "(andb (N.eqb (q_type q) T_TXT) (bs_eqb (q_name q) (r_name txt)))", provider_q(3))

    def provider_k(n):
        def g():
            b = func_body(provider, r"void\s+ProviderPrivate::onMessageReceived\s*\(")
            k = [m.start() for m in re.finditer(r"\bfor\s*\(", b)][1]
            cond = nth_cond(b[k:], "if", n)
            v = merge(rec_vocab(loop_var(b[k:], "Record", "record"), "r"), rec_vocab("ptrRecord", "ptr"), rec_vocab("srvRecord", "srv"),
                      rec_vocab("txtRecord", "txt"))
            return Dec(cond, v).parse()
        return g

    P_K = "(r ptr srv txt : record)"
    decision("provider_known_ptr", P_K, "(record_eqb r ptr)", provider_k(0))
    decision("provider_known_srv", P_K, "(record_eqb r srv)", provider_k(1))
    decision("provider_known_txt", P_K, "(record_eqb r txt)", provider_k(2))

    def prober_guard():
        b = func_body(prober, r"void\s+ProberPrivate::onMessageReceived\s*\(")
        cond = nth_cond(b, "if", 0)
        tail = b[b.index(cond) + len(cond):]
        if not re.match(r"\s*\)\s*\{?\s*return\s*;", tail):
            raise ValueError("the first if of onMessageReceived no longer returns")
        return Dec(cond, {"confirmed": ("confirmed", "bool"), "message.isResponse()": ("response", "bool")}).parse()

    decision("prober_ignore_message", "(confirmed response : bool)", "(orb confirmed (negb response))", prober_guard)

    # --- provider.cpp: the entry guard of onMessageReceived and the decisions of Provider::update
    def provider_guard():
        b = func_body(provider, r"void\s+ProviderPrivate::onMessageReceived\s*\(")
        cond = nth_cond(b, "if", 0)
        tail = b[b.index(cond) + len(cond):]
        if not re.match(r"\s*\)\s*\{?\s*return\s*;", tail):
            raise ValueError("the first if of onMessageReceived no longer returns")
        return Dec(cond, {"confirmed": ("confirmed", "bool"), "message.isResponse()": ("response", "bool")}).parse()

    decision("provider_ignore_message", "(confirmed response : bool)", "(orb (negb confirmed) response)", provider_guard)

    def provider_update(n, expect):
        def g():
            b = func_body(provider, r"void\s+Provider::update\s*\(")
            cond = nth_cond(b, "if", n)
            if expect not in re.sub(r"\s+", "", cond):
                raise ValueError("the %d-th if of Provider::update is no longer about %s" % (n, expect))
            v = merge(rec_vocab("d->srvProposed", "srvProposed"), rec_vocab("d->srvRecord", "srv"),
                      {"d->srvProposed.target().isEmpty()": ("(match bs_data (r_target srvProposed) with [] => true | _ :: _ => false end)", "bool"),
                       "d->confirmed": ("confirmed", "bool"), "fqName": ("fqName", "bstr"),
                       "d->prober": ("has_prober", "bool"), "d->probedName": ("probed", "bstr")})
            return Dec(cond, v).parse()
        return g

    decision("provider_has_target", "(srvProposed : record)",
             "(negb (match bs_data (r_target srvProposed) with [] => true | _ :: _ => false end))", provider_update(1, "srvProposed.target()"))
    decision("provider_must_confirm", "(confirmed : bool) (fqName : bstr) (srv : record)",
             "(orb (negb confirmed) (negb (bs_eqb fqName (r_name srv))))", provider_update(2, "d->confirmed"))
    decision("provider_probe_pending", "(has_prober : bool) (probed fqName : bstr)",
             "(andb has_prober (bs_eqb probed fqName))", provider_update(3, "probedName"))
    decision("provider_retarget", "(srvProposed srv : record)",
             "(negb (bs_eqb (r_target srvProposed) (r_target srv)))", provider_update(5, "srvRecord.target()"))

    # --- browser.cpp: which records of a response the first loop of onMessageReceived keeps, and which service types
    #     updateService ignores
    # the build is against Qt 5: of `#if (QT_VERSION >= ...) A #else B #endif` keep B (the braces of A and B overlap)
    browser5 = re.sub(r"#\s*if\s*\(\s*QT_VERSION\s*>=[^\n]*\n(.*?)#\s*else[^\n]*\n(.*?)#\s*endif[^\n]*\n", lambda m: m.group(2), browser, flags=re.S)

    def browser_any():
        b = func_body(browser5, r"void\s+BrowserPrivate::onMessageReceived\s*\(")
        m = re.search(r"const\s+bool\s+any\s*=\s*([^;]+);", b)
        if not m:
            raise ValueError("no `const bool any = ...;`")
        return Dec(m.group(1), merge({"type": ("type", "bstr")})).parse()

    decision("browser_any", "(type : bstr)", "(bs_eqb type (Some browse_type))", browser_any)

    def browser_case(label, n):
        def g():
            b = func_body(browser5, r"void\s+BrowserPrivate::onMessageReceived\s*\(")
            loop = b[b.index("for"):]
            k = re.search(r"\bcase\s+%s\s*:" % label, loop)
            if not k:
                raise ValueError("no case " + label)
            seg = loop[k.end():]
            seg = seg[:seg.index("break")]
            cond = nth_cond(seg, "if", n)
            rv = loop_var(loop, "Record", "record")
            v = merge(rec_vocab(rv, "r"), {"any": ("any", "bool"), "type": ("type", "bstr"),
                      '%s.name().endsWith("."+type)' % rv: ("(ends_with ([DOT] ++ bs_data type) (bs_data (r_name r)))", "bool")})
            return Dec(cond, v).parse()
        return g

    B_B = "(any : bool) (r : record) (type : bstr)"
    decision("browser_ptr_browse", B_B, "(andb any (bs_eqb (r_name r) (Some browse_type)))", browser_case("PTR", 0))
    decision("browser_ptr_type", B_B, "(orb any (bs_eqb (r_name r) type))", browser_case("PTR", 1))
    decision("browser_srvtxt", B_B, "(orb any (ends_with ([DOT] ++ bs_data type) (bs_data (r_name r))))", browser_case("TXT", 0))

    def browser_filter():
        b = func_body(browser5, r"bool\s+BrowserPrivate::updateService\s*\(")
        cond = nth_cond(b, "if", 0)
        tail = b[b.index(cond) + len(cond):]
        if not re.match(r"\s*\)\s*\{?\s*return\s+false\s*;", tail):
            raise ValueError("the first if of updateService no longer returns false")
        v = merge({"serviceType.isEmpty()": ("(match bs_data serviceType with [] => true | _ :: _ => false end)", "bool"),
                   "serviceType": ("serviceType", "bstr"), "type": ("type", "bstr")})
        return Dec(cond, v).parse()

    decision("browser_not_of_interest", "(serviceType type : bstr)",
             "(orb (match bs_data serviceType with [] => true | _ :: _ => false end) (andb (negb (bs_eqb type (Some browse_type))) (negb (bs_eqb serviceType type))))",
             browser_filter)

    return consts, decisions, degraded


def render():
    consts, decisions, degraded = facts()
    a = ["(* GENERATED by tools/srcfacts.py from %s — do not edit. *)" % "the repository sources",
         "From QV Require Import Base Fields.", ""]
    for name, ty, v in consts:
        a.append("Definition %s : %s := %s." % (name, ty, v))
    b = ["(* GENERATED by tools/srcfacts.py from %s — do not edit. *)" % "the repository sources",
         "From QV Require Import Base Fields SrcFacts Msg.", ""]
    for name, binders, body in decisions:
        b.append("Definition %s %s : bool :=\n  %s." % (name, binders, body))
    return "\n".join(a) + "\n", "\n".join(b) + "\n", degraded, consts, decisions


def write_if_changed(path, text):
    try:
        with open(path) as f:
            if f.read() == text:
                return False
    except FileNotFoundError:
        pass
    with open(path, "w") as f:
        f.write(text)
    return True


def main():
    a, b, degraded, consts, decisions = render()
    if "--default" in sys.argv:
        write_if_changed(os.path.join(COQ, "SrcFacts.default.v"), a)
        write_if_changed(os.path.join(COQ, "SrcDecisions.default.v"), b)
    ca = write_if_changed(os.path.join(COQ, "SrcFacts.v"), a)
    cb = write_if_changed(os.path.join(COQ, "SrcDecisions.v"), b)
    # compare with the committed defaults to report which facts changed value
    changed = []
    for fn, txt in (("SrcFacts.default.v", a), ("SrcDecisions.default.v", b)):
        try:
            with open(os.path.join(COQ, fn)) as f:
                old = f.read()
        except FileNotFoundError:
            old = ""
        olds = set(re.findall(r"Definition (\w+)[^\n]*:=\s*[^\n]*(?:\n  [^\n]*)?", old))
        oldmap = {m.group(1): m.group(0) for m in re.finditer(r"Definition (\w+)[^\n]*:=\s*[^\n]*(?:\n  [^\n]*)?", old)}
        for m in re.finditer(r"Definition (\w+)[^\n]*:=\s*[^\n]*(?:\n  [^\n]*)?", txt):
            if oldmap.get(m.group(1)) != m.group(0):
                changed.append(m.group(1))
    out = {"degraded": degraded, "changed_vs_default": changed, "rewrote": [ca, cb],
           "constants": {n: v for n, _, v in consts}, "decisions": {n: bd for n, _, bd in decisions}}
    json.dump(out, sys.stdout, indent=1)
    print()


if __name__ == "__main__":
    main()
