#!/bin/bash
# usage: [ROUND=round2] confirm_seed.sh <Cxx> [check ids...]  — confirms a sub-agent's seeded change in its scratch worktree, runs our checks on it
P=$1; shift; CHECKS=${@:-$P}; W=/tmp/wt_$P; S=$W/SEED
cd $W || exit 2
git checkout -q -- src 2>/dev/null
echo "== unmodified: build + demo (expect PASS)"
cmake -S $W -B $W/_b -G Ninja -DBUILD_TESTS=ON >/dev/null && cmake --build $W/_b -j16 >/dev/null 2>&1
( cd $S && timeout 300 bash build.sh >/tmp/seed_demo_clean.log 2>&1 ); RC_CLEAN=$?; echo "demo(clean) rc=$RC_CLEAN"; tail -3 /tmp/seed_demo_clean.log
echo "== with change: build + ctest (expect all pass) + demo (expect FAIL)"
git apply $S/patch.diff || { echo "PATCH DOES NOT APPLY"; exit 3; }
cmake --build $W/_b -j16 >/dev/null 2>&1; ctest --test-dir $W/_b -j8 --timeout 900 2>&1 | grep -E "tests passed|Failed|\*\*\*" | head -5
( cd $S && timeout 300 bash build.sh >/tmp/seed_demo_mut.log 2>&1 ); RC_MUT=$?; echo "demo(changed) rc=$RC_MUT"; tail -3 /tmp/seed_demo_mut.log
git checkout -q -- src
echo "== our checks against the change"
git -C /repo apply $S/patch.diff || { echo "PATCH DOES NOT APPLY TO /repo"; exit 4; }
for c in $CHECKS; do python3 /verif/tools/check.py $c 2>&1 | grep -E "^VIOLATION|^KNOWN" | head -3; echo "$c exit=${PIPESTATUS[0]}"; done
git -C /repo checkout -- .
python3 /verif/tools/srcfacts.py >/dev/null
D=/verif/seeded/$P${ROUND:+/$ROUND}; mkdir -p $D && cp $S/patch.diff $S/meta.json $D/ 2>/dev/null; cp $S/demo.cpp $S/build.sh $D/ 2>/dev/null
echo "clean=$RC_CLEAN changed=$RC_MUT"
