"""explore.py — generic correspondence + monitor exploration over script batches."""
import os, time
import vlib
from vlib import Script
from check import shrink


def groups(lines):
    """split output lines into per-operation groups at '.' lines; returns (groups, trailing)"""
    gs, cur = [], []
    for l in lines:
        if l == ".":
            gs.append(cur)
            cur = []
        else:
            cur.append(l)
    return gs, cur


def mon_script(script, out_lines, mon_engine):
    gs, trailing = groups([l for l in out_lines if not l.startswith("OBS ")])
    ops = [l for l in script.lines if not l.startswith(("GHOST ", "GHOST+ "))]
    if len(gs) == len(ops) + 1:
        ops.append("END")          # the group produced by tearing the objects down
    if len(gs) != len(ops) or trailing:
        return None
    lines = []
    for op, g in zip(ops, gs):
        lines.append("> " + op)
        lines += ["< " + o for o in g]
    return Script(script.id, mon_engine, lines, script.args)


def explore_scripts(ctx, scripts, mon_engine=None, project=None, classify=None, env=None,
                    nontrivial=None, max_report=4, attribute=None, mon_on_model=True, judge=None):
    """returns dict(evaluations, distinct_nontrivial, samples, traces_validated_against_impl, violations, ...)
       project(lines)->lines selects what the property compares; classify(kind, detail, script)->signature;
       attribute(kind, detail)->bool says whether a rejection belongs to this property."""
    project = project or (lambda ls: ls)
    classify = classify or (lambda kind, detail, s: None)
    attribute = attribute or (lambda kind, detail: True)
    model = vlib.run_model(ctx.driver, scripts)
    impl, faults = vlib.run_impl(ctx.hx, scripts, env_extra=env)

    def verdicts(traces, which):
        ms = []
        for s in which:
            m = mon_script(s, traces.get(s.id, []), mon_engine)
            if m is not None:
                ms.append(m)
        out = vlib.run_model(ctx.driver, ms) if ms else {}
        return {k: (v[0] if v else "ERROR empty") for k, v in out.items()}

    mon_impl = verdicts(impl, scripts) if mon_engine else {}
    mon_model = verdicts(model, scripts) if (mon_engine and mon_on_model) else {}

    def failure(s, model_t, impl_t, mi, mm):
        """-> (kind, detail) or None"""
        it = impl_t if impl_t is not None else []
        if any(l.startswith("FAULT") for l in it):
            return ("fault", next(l for l in it if l.startswith("FAULT")))
        if any(l.startswith("ERROR") for l in it):
            return ("harness-error", next(l for l in it if l.startswith("ERROR")))
        if mon_engine and mi is not None and mi.startswith("REJECT") and attribute("monitor", mi):
            return ("monitor", mi)
        if mon_engine and mi is not None and mi.startswith("ERROR"):
            return ("monitor-error", mi)
        if judge:
            why = judge(s, it)          # a property-level judgement of the implementation trace made in Python
            if why:
                return ("monitor", "REJECT " + why)
        pm, pi = project(model_t or []), project(it)
        if pm != pi:
            k = next((i for i, (a, b) in enumerate(zip(pm, pi)) if a != b), min(len(pm), len(pi)))
            return ("correspondence", "first difference at projected line %d: model=%r impl=%r" % (
                k, pm[k] if k < len(pm) else None, pi[k] if k < len(pi) else None))
        if mon_engine and mm is not None and mm.startswith("REJECT") and attribute("monitor", mm):
            return ("model-rejected", mm)
        return None

    failing = []
    for s in scripts:
        f = failure(s, model.get(s.id), impl.get(s.id), mon_impl.get(s.id), mon_model.get(s.id))
        if f:
            failing.append((s, f))

    def rerun(s):
        m = vlib.run_model(ctx.driver, [s])
        i, _ = vlib.run_impl(ctx.hx, [s], env_extra=env)
        mi = mm = None
        if mon_engine:
            mi = verdicts(i, [s]).get(s.id)
            mm = verdicts(m, [s]).get(s.id) if mon_on_model else None
        return failure(s, m.get(s.id), i.get(s.id), mi, mm), m.get(s.id, []), i.get(s.id, [])

    violations, seen_sig = [], set()
    # one representative per (kind, signature): shrink the shortest scripts first
    failing.sort(key=lambda sf: len(sf[0].lines))
    for s, f in failing:
        if len(violations) >= max_report:
            break
        kind0 = f[0]
        sig0 = classify(f[0], f[1], s)
        if (kind0, sig0) in seen_sig and sig0 is not None:
            continue

        def still(c):
            r, _, _ = rerun(c)
            return r is not None and r[0] == kind0 and classify(r[0], r[1], c) == sig0

        small = shrink(s, still, budget=150 if ctx.tier == "quick" else 400)
        r, mt, it = rerun(small)
        if r is None:
            small, (r, mt, it) = s, rerun(s)
            if r is None:
                r = f
        sig = classify(r[0], r[1], small)
        if (r[0], sig) in seen_sig:
            continue
        seen_sig.add((r[0], sig))
        body = "property %s — %s\n%s\n\n--- script (feed to the harness / driver) ---\n%s\n--- implementation trace ---\n%s\n\n--- model trace ---\n%s\n" % (
            ctx.pid, r[0], r[1], small.text(), "\n".join(it), "\n".join(mt))
        if small.id in faults:
            body += "\n--- sanitizer / crash output ---\n" + faults[small.id]
        p = vlib.write_replay(ctx.pid, "%s_%d" % (r[0], len(violations)), body)
        nofail = r[0] in ("correspondence", "model-rejected", "harness-error", "monitor-error")
        violations.append({"replay": p, "what": "%s: %s" % (r[0], r[1]), "signature": sig, "nofail": nofail,
                           "kind": r[0]})

    nontrivial = nontrivial or (lambda s, out: any(l != "." for l in out))
    distinct = set()
    for s in scripts:
        if nontrivial(s, impl.get(s.id, [])):
            distinct.add("\n".join(s.lines))
    samples = []
    for s in scripts[:2] + scripts[-1:]:
        samples.append({"script": s.lines[:12], "implementation_trace": impl.get(s.id, [])[:12],
                        "monitor": mon_impl.get(s.id)})
    return {"evaluations": len(scripts), "distinct_nontrivial": len(distinct), "samples": samples,
            "traces_validated_against_impl": sum(1 for s in scripts if s.id in impl),
            "monitor_accepts_impl": sum(1 for v in mon_impl.values() if v == "ACCEPT"),
            "monitor_accepts_model": sum(1 for v in mon_model.values() if v == "ACCEPT"),
            "failing_scripts_before_shrinking": len(failing),
            "violations": violations}
