#!/bin/sh
# usage: try_mutation.sh <patchfile|-e sedexpr file> <Cxx>...   applies, runs the checks, always reverts
set -u
if [ "$1" = "-e" ]; then EXPR="$2"; FILE="$3"; shift 3; sed -i "$EXPR" "/repo/$FILE"; else git -C /repo apply "$1" || exit 2; shift; fi
git -C /repo diff --stat | tail -1
for p in "$@"; do python3 /verif/tools/check.py "$p" 2>&1 | grep -E "VIOLATION|KNOWN|Error" | head -4; echo "$p rc=$?"; done
git -C /repo checkout -- .
python3 /verif/tools/srcfacts.py >/dev/null
