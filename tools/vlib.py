"""vlib.py — shared machinery of the checks: builds (Coq, extraction, OCaml driver, the real library
with the harness), running script batches on model and implementation, evidence, verdicts."""
import fcntl, glob, hashlib, json, os, random, re, shutil, subprocess, sys, time

VERIF = os.path.dirname(os.path.dirname(os.path.abspath(__file__)))
REPO = os.environ.get("VERIF_REPO", "/repo")
COQ = os.path.join(VERIF, "coq")
BUILD = os.path.join(VERIF, "build")
NPROC = str(os.cpu_count() or 4)

TRUSTED_BASE = [
    "Coq 8.16.1 kernel and vm_compute (no native_compute); no axioms declared by the development",
    "extraction: Require Extraction + ExtrOcamlBasic only, no Extract Constant/Inductive of our own; OCaml 4.13.1",
    "tools/srcfacts.py (regenerates SrcFacts.v / SrcDecisions.v from /repo on every run)",
    "hand-written models of the C++ (validated on every run by the differential correspondence check)",
    "OCaml driver and C++ harness (script parser, canonical printers, virtual clock / timer dispatcher / RNG / host name interposition)",
    "Qt 5.15.8 container, QTimer, QHostAddress and direct-connection signal semantics as modelled (DESIGN.md appendix E)",
]


def sh(cmd, cwd=None, timeout=None, env=None, inp=None):
    p = subprocess.run(cmd, cwd=cwd, timeout=timeout, env=env, input=inp, stdout=subprocess.PIPE,
                       stderr=subprocess.STDOUT, text=True, shell=isinstance(cmd, str), errors="replace")
    return p.returncode, p.stdout


class Lock:
    def __init__(self, name):
        os.makedirs(BUILD, exist_ok=True)
        self.path = os.path.join(BUILD, name + ".lock")

    def __enter__(self):
        self.f = open(self.path, "w")
        fcntl.flock(self.f, fcntl.LOCK_EX)
        return self

    def __exit__(self, *a):
        fcntl.flock(self.f, fcntl.LOCK_UN)
        self.f.close()


def tree_hash(paths):
    h = hashlib.sha256()
    for p in paths:
        if os.path.isdir(p):
            for root, dirs, files in sorted(os.walk(p)):
                dirs.sort()
                for fn in sorted(files):
                    fp = os.path.join(root, fn)
                    h.update(fp.encode())
                    with open(fp, "rb") as f:
                        h.update(f.read())
        elif os.path.exists(p):
            h.update(p.encode())
            with open(p, "rb") as f:
                h.update(f.read())
    return h.hexdigest()[:16]


# ------------------------------------------------------------------ Coq
def srcfacts():
    rc, out = sh([sys.executable, os.path.join(VERIF, "tools", "srcfacts.py")])
    try:
        return json.loads(out)
    except Exception:
        return {"degraded": ["srcfacts.py failed: " + out[-400:]], "changed_vs_default": [], "constants": {}, "decisions": {}}


def coq_files():
    with open(os.path.join(COQ, "_CoqProject")) as f:
        return [l.strip() for l in f if l.strip().endswith(".v")]


def coq_build(targets=None):
    """regenerate SrcFacts, (re)build the development with -k; returns dict:
       ok: {file.v: bool}, log, facts"""
    with Lock("coq"):
        facts = srcfacts()
        if not os.path.exists(os.path.join(COQ, "Makefile")) or \
                os.path.getmtime(os.path.join(COQ, "Makefile")) < os.path.getmtime(os.path.join(COQ, "_CoqProject")):
            sh("coq_makefile -f _CoqProject -o Makefile", cwd=COQ)
        files = coq_files()
        tg = [f + "o" for f in (targets or files)]
        t0 = time.time()
        rc, log = sh(["timeout", "1500", "make", "-k", "-j" + NPROC] + tg, cwd=COQ)
        ok = {}
        for f in files:
            vo = os.path.join(COQ, f + "o")
            src = os.path.join(COQ, f)
            ok[f] = os.path.exists(vo) and os.path.getmtime(vo) >= os.path.getmtime(src)
        # a file whose dependency failed is stale even if an older .vo exists
        failed = set(re.findall(r"\*\*\* \[[^\]]*?(\w+)\.vo\]", log))
        for f in files:
            if f[:-2] in failed:
                ok[f] = False
        return {"ok": ok, "log": log, "facts": facts, "rc": rc, "wall_s": time.time() - t0}


def coq_deps(vfile):
    """transitive .v dependencies (within the development) of vfile, including itself"""
    rc, out = sh("coqdep -Q . QV " + " ".join(coq_files()), cwd=COQ)
    deps = {}
    for line in out.splitlines():
        m = re.match(r"(\S+)\.vo.*?:\s*(.*)", line)
        if not m:
            continue
        deps[m.group(1) + ".v"] = [d[:-1] for d in m.group(2).split() if d.endswith(".vo")]
    seen, todo = set(), [vfile]
    while todo:
        f = todo.pop()
        if f in seen:
            continue
        seen.add(f)
        todo += deps.get(f, [])
    return sorted(seen)


def count_obligations(vfiles):
    """number of statements closed by Qed/Defined in the given files, and how many Admitted/admit"""
    n = 0
    bad = []
    for f in vfiles:
        with open(os.path.join(COQ, f)) as fh:
            s = fh.read()
        s = re.sub(r"\(\*.*?\*\)", " ", s, flags=re.S)
        n += len(re.findall(r"\b(?:Qed|Defined)\s*\.", s))
        for kw in (r"\bAdmitted\b", r"\badmit\b", r"\bAxiom\b", r"\bParameter\b", r"\bConjecture\b",
                   r"Unset\s+Guard", r"bypass_check", r"\bAdmit\s+Obligations\b", r"-type-in-type"):
            if re.search(kw, s):
                bad.append("%s: %s" % (f, kw))
    return n, bad


def print_assumptions(module, names):
    """run Print Assumptions for the given theorem names of a compiled module"""
    tmp = os.path.join(BUILD, "pa_%s_%d.v" % (module, os.getpid()))
    with open(tmp, "w") as f:
        f.write("From QV Require Import %s.\n" % module)
        for n in names:
            f.write('Print Assumptions %s.\n' % n)
    rc, out = sh(["timeout", "300", "coqc", "-Q", COQ, "QV", tmp], cwd=BUILD)
    for ext in (".v", ".vo", ".vok", ".vos", ".glob"):
        try:
            os.remove(tmp[:-2] + ext)
        except OSError:
            pass
    try:
        os.remove(os.path.join(BUILD, ".pa_%s_%d.aux" % (module, os.getpid())))
    except OSError:
        pass
    return rc, out.strip()


def theorem_names(vfile):
    with open(os.path.join(COQ, vfile)) as fh:
        s = fh.read()
    s = re.sub(r"\(\*.*?\*\)", " ", s, flags=re.S)
    return re.findall(r"\b(?:Theorem|Corollary)\s+(\w+)", s)


# ------------------------------------------------------------------ OCaml driver
def ocaml_build():
    """extract the models and build the driver; cached on the hash of the .v and .ml sources"""
    with Lock("ocaml"):
        h = tree_hash([os.path.join(COQ, f) for f in coq_files() + ["Extract.v"]] + [os.path.join(VERIF, "ocaml")])
        d = os.path.join(BUILD, "ocaml")
        stamp = os.path.join(d, "stamp")
        drv = os.path.join(d, "driver")
        if os.path.exists(stamp) and open(stamp).read() == h and os.path.exists(drv):
            return drv, ""
        os.makedirs(d, exist_ok=True)
        rc, out = sh(["timeout", "600", "coqc", "-Q", COQ, "QV", os.path.join(COQ, "Extract.v")], cwd=d)
        if rc != 0:
            return None, "extraction failed:\n" + out
        srcs = []
        for fn in ("io.ml", "driver.ml"):
            shutil.copy(os.path.join(VERIF, "ocaml", fn), os.path.join(d, fn))
        with open(os.path.join(d, "driver.ml"), "a") as f:
            f.write("\nlet () = main ()\n")
        rc, out = sh("ocamlfind ocamlopt -O3 -w -a model.mli model.ml io.ml driver.ml -o driver 2>&1 || "
                     "ocamlfind ocamlopt -w -a model.mli model.ml io.ml driver.ml -o driver", cwd=d, timeout=600)
        if rc != 0 or not os.path.exists(drv):
            return None, "ocaml build failed:\n" + out
        with open(stamp, "w") as f:
            f.write(h)
        return drv, ""


# ------------------------------------------------------------------ implementation + harness
SAN = "-fsanitize=address,undefined -fno-sanitize-recover=undefined -fno-omit-frame-pointer -g -O1"


def impl_build():
    """build /repo's current working tree (static, ASan+UBSan) and link the harness against it"""
    with Lock("impl"):
        h = tree_hash([os.path.join(REPO, "src"), os.path.join(REPO, "CMakeLists.txt"), os.path.join(VERIF, "harness")])
        d = os.path.join(BUILD, "impl-" + h)
        hx = os.path.join(d, "hx")
        if os.path.exists(hx):
            os.utime(d)
            return hx, ""
        # keep at most two older builds
        olds = sorted(glob.glob(os.path.join(BUILD, "impl-*")), key=os.path.getmtime)
        for o in olds[:-1]:
            shutil.rmtree(o, ignore_errors=True)
        os.makedirs(d, exist_ok=True)
        lib = os.path.join(d, "lib")
        rc, out = sh(["cmake", "-S", REPO, "-B", lib, "-G", "Ninja", "-DBUILD_SHARED_LIBS=OFF",
                      "-DCMAKE_BUILD_TYPE=None", "-DCMAKE_CXX_FLAGS=" + SAN], timeout=600)
        if rc == 0:
            rc, out2 = sh(["cmake", "--build", lib, "-j", NPROC], timeout=1200)
            out += out2
        if rc != 0:
            shutil.rmtree(d, ignore_errors=True)
            return None, "library build failed:\n" + out[-3000:]
        rc, flags = sh("pkg-config --cflags Qt5Core Qt5Network")
        srcs = sorted(glob.glob(os.path.join(VERIF, "harness", "*.cpp")))
        objs = []
        procs = []
        for s in srcs:
            o = os.path.join(d, os.path.basename(s)[:-4] + ".o")
            objs.append(o)
            cmd = "g++ -std=c++17 -fPIC %s %s -I%s -I%s -I%s -I%s -c %s -o %s" % (
                SAN, flags.strip(), os.path.join(REPO, "src", "include"), os.path.join(lib, "src"),
                os.path.join(REPO, "src", "src"), os.path.join(VERIF, "harness"), s, o)
            procs.append((s, subprocess.Popen(cmd, shell=True, stdout=subprocess.PIPE, stderr=subprocess.STDOUT, text=True)))
        errs = ""
        for s, p in procs:
            o, _ = p.communicate()
            if p.returncode != 0:
                errs += "compile %s failed:\n%s\n" % (s, o[-3000:])
        if errs:
            shutil.rmtree(d, ignore_errors=True)
            return None, errs
        rc, out = sh("g++ %s %s %s -lQt5Network -lQt5Core -o %s" % (
            SAN, " ".join(objs), os.path.join(lib, "src", "libqmdnsengine.a"), hx), timeout=600)
        if rc != 0:
            shutil.rmtree(d, ignore_errors=True)
            return None, "harness link failed:\n" + out[-3000:]
        shutil.rmtree(os.path.join(lib, "CMakeFiles"), ignore_errors=True)
        return hx, ""


# ------------------------------------------------------------------ running scripts
class Script:
    __slots__ = ("id", "engine", "args", "lines", "meta")

    def __init__(self, sid, engine, lines, args=(), meta=None):
        self.id = str(sid)
        self.engine = engine
        self.args = list(args)
        self.lines = list(lines)
        self.meta = meta or {}

    def text(self, model=False):
        # GHOST lines are operations of the harness only (a bystander object created and destroyed at once)
        lines = [l for l in self.lines if not l.startswith(("GHOST ", "GHOST+ "))] if model else self.lines
        return "=== %s %s %s\n%s\n" % (self.id, self.engine, " ".join(self.args), "\n".join(lines))


def parse_out(out):
    res, cur = {}, None
    for line in out.splitlines():
        if line.startswith("=== "):
            cur = line[4:].strip()
            res[cur] = []
        elif cur is not None:
            res[cur].append(line)
    return res


def run_model(driver, scripts, timeout=600):
    inp = "".join(s.text(model=True) for s in scripts)
    p = subprocess.run([driver], input=inp, stdout=subprocess.PIPE, stderr=subprocess.PIPE, text=True, timeout=timeout)
    res = parse_out(p.stdout)
    if p.returncode != 0:
        for s in scripts:
            res.setdefault(s.id, ["ERROR driver exit %d: %s" % (p.returncode, p.stderr[-300:])])
    return res


def run_impl(hx, scripts, env_extra=None, timeout=900, chunk=400):
    """runs the scripts on the real library; a crash (sanitizer abort, watchdog) is recorded as a
    FAULT line for the offending script and the batch resumes after it"""
    env = dict(os.environ)
    env.update({"QT_HASH_SEED": "0", "TZ": "UTC", "LC_ALL": "C",
                "ASAN_OPTIONS": "detect_leaks=0:abort_on_error=0:exitcode=23:allocator_may_return_null=1",
                "UBSAN_OPTIONS": "print_stacktrace=1:halt_on_error=1:exitcode=24"})
    if env_extra:
        env.update(env_extra)
    res = {}
    faults = {}

    def run_chunk(batch):
        todo = list(batch)
        while todo:
            inp = "".join(s.text() for s in todo)
            try:
                p = subprocess.run([hx], input=inp, stdout=subprocess.PIPE, stderr=subprocess.PIPE, text=True,
                                   timeout=timeout, env=env, errors="replace")
                out, err, rc = p.stdout, p.stderr, p.returncode
            except subprocess.TimeoutExpired as e:
                out = e.stdout if isinstance(e.stdout, str) else (e.stdout or b"").decode(errors="replace")
                err, rc = "harness timeout", -9
            part = parse_out(out)
            res.update(part)
            if rc == 0:
                break
            # the last script that printed its header is the one that died
            ids = [s.id for s in todo]
            done = [i for i in ids if i in part]
            if not done:
                for s in todo:
                    res[s.id] = ["FAULT harness-start rc=%d %s" % (rc, err[-200:].replace("\n", " "))]
                break
            last = done[-1]
            kind = "crash"
            if "AddressSanitizer" in err:
                m = re.search(r"AddressSanitizer: ([\w-]+)", err)
                kind = "asan " + (m.group(1) if m else "")
            elif "runtime error" in err:
                m = re.search(r"runtime error: ([^\n]*)", err)
                kind = "ubsan " + (m.group(1)[:80] if m else "")
            elif rc == 3:
                kind = "watchdog"
            res[last] = [l for l in res.get(last, []) if not l.startswith("FAULT")] + ["FAULT " + kind]
            faults[last] = err[-4000:]
            k = ids.index(last)
            todo = todo[k + 1:]

    import concurrent.futures
    chunks = [scripts[i:i + chunk] for i in range(0, len(scripts), chunk)]
    with concurrent.futures.ThreadPoolExecutor(max_workers=int(NPROC)) as ex:
        list(ex.map(run_chunk, chunks))
    return res, faults


# ------------------------------------------------------------------ evidence / verdict
def load_known():
    p = os.path.join(VERIF, "known_findings.json")
    if not os.path.exists(p):
        return []
    with open(p) as f:
        return json.load(f).get("findings", [])


def write_evidence(pid, tier, seed, coverage, assumptions, wall_s, violations):
    os.makedirs(os.path.join(VERIF, "evidence"), exist_ok=True)
    ev = {"property_id": pid, "tier": tier, "seed": seed, "level": "proof", "coverage": coverage,
          "assumptions": assumptions, "wall_s": round(wall_s, 2), "violations": violations}
    tmp = os.path.join(VERIF, "evidence", pid + ".json.tmp")
    with open(tmp, "w") as f:
        json.dump(ev, f, indent=1)
    os.replace(tmp, os.path.join(VERIF, "evidence", pid + ".json"))


def write_replay(pid, name, content):
    d = os.path.join(BUILD, "replays")
    os.makedirs(d, exist_ok=True)
    p = os.path.join(d, "%s_%s.txt" % (pid, name))
    with open(p, "w") as f:
        f.write(content)
    return p
