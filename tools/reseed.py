#!/usr/bin/env python3
"""Regression over the kept seeded changes: applies every seeded/<id>[/roundN]/patch*.diff that still applies to /repo,
runs the quick check of that property (VERIF_SEED from the environment), reverts, and reports which are flagged.
usage: reseed.py [Cxx ...]   (exclusive use of /repo's working tree while it runs)"""
import glob, os, subprocess, sys, json
V = os.path.dirname(os.path.dirname(os.path.abspath(__file__)))
want = set(sys.argv[1:])
rows = []
for d in sorted(glob.glob(os.path.join(V, "seeded", "C*")) + glob.glob(os.path.join(V, "seeded", "C*", "round*"))):
    pid = d.split("/seeded/")[1].split("/")[0]
    if want and pid not in want:
        continue
    cands = sorted(glob.glob(os.path.join(d, "patch_rebased*.diff"))) + [os.path.join(d, "patch.diff")]
    patch = next((p for p in cands if os.path.exists(p) and subprocess.run(["git", "-C", "/repo", "apply", "--check", p], capture_output=True).returncode == 0), None)
    label = d.split("/seeded/")[1]
    if not patch:
        rows.append((label, "does-not-apply", ""))
        continue
    subprocess.run(["git", "-C", "/repo", "apply", patch], check=True)
    try:
        p = subprocess.run([sys.executable, os.path.join(V, "tools", "check.py"), pid, "--tier", "quick"], capture_output=True, text=True, timeout=1800)
        vio = [l for l in p.stdout.splitlines() if l.startswith("VIOLATION")]
        kind = "flagged-with-input" if any("no-failing-input-found" not in l for l in vio) else ("flagged-no-input" if vio else "MISSED")
        rows.append((label, kind, vio[0][:120] if vio else ""))
    finally:
        subprocess.run(["git", "-C", "/repo", "checkout", "--", "."], check=True)
    print(rows[-1], flush=True)
subprocess.run([sys.executable, os.path.join(V, "tools", "srcfacts.py")], capture_output=True)
json.dump(rows, open(os.path.join(V, "build", "reseed_%s.json" % os.environ.get("VERIF_SEED", "1")), "w"), indent=1)
print("summary:", {k: sum(1 for r in rows if r[1] == k) for k in set(r[1] for r in rows)})
