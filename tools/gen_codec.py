"""gen_codec.py — messages per the quantifier of C01, an independent reference encoder (C02) and
strict reference decoder (C01), structure-aware mutants and short-string enumeration (C03)."""
import itertools, struct

T_A, T_AAAA, T_NSEC, T_PTR, T_SRV, T_TXT = 1, 28, 47, 12, 33, 16
LABELS = [b"a", b"bb", b"local", b"_tcp", b"_http", b"host", b"x" * 63, b"\xc0\x80\xff", b"A-b_c", b"\x00", b"="]
TTLS = [0, 1, 120, 4500, 2 ** 31, 2 ** 32 - 1]


def hx(b):
    return b.hex() if b else "."


def bstr(b):
    return "-" if b is None else hx(b)


class Rec:
    def __init__(self, name, rtype, flush=False, ttl=3600, addr=None, target=None, nxt=None, prio=0, weight=0, port=0,
                 attrs=None, bitmap=b"", raw=None):
        self.name, self.type, self.flush, self.ttl = name, rtype, flush, ttl
        self.addr, self.target, self.next = addr, target, nxt
        self.prio, self.weight, self.port = prio, weight, port
        self.attrs = attrs or {}          # bytes -> bytes|None
        self.bitmap = bitmap
        self.raw = raw                    # opaque rdata of an unsupported type (reference encoder only)
        self.txt_strings = None           # explicit TXT string layout (reference encoder only)

    def tok(self):
        if self.addr is None:
            a = "n"
        elif len(self.addr) == 4:
            a = "4:%d" % struct.unpack(">I", self.addr)[0]
        else:
            a = "6:" + self.addr.hex()
        at = "+".join("%s=%s" % (hx(k), bstr(v)) for k, v in sorted(self.attrs.items())) if self.attrs else "_"
        return ",".join([bstr(self.name), str(self.type), "1" if self.flush else "0", str(self.ttl), a,
                         bstr(self.target), bstr(self.next), str(self.prio), str(self.weight), str(self.port), at,
                         hx(self.bitmap)])


class Msg:
    def __init__(self, mid=0, response=False, truncated=False, queries=None, records=None):
        self.id, self.response, self.truncated = mid, response, truncated
        self.queries = queries or []      # (name, type, unicast)
        self.records = records or []

    def tok(self):
        qs = ";".join("%s,%d,%d" % (bstr(n), t, 1 if u else 0) for n, t, u in self.queries)
        return "n|0|%d|%d|%d|%s|%s" % (self.id, 1 if self.response else 0, 1 if self.truncated else 0, qs,
                                       ";".join(r.tok() for r in self.records))


def rand_name(rng, pool=None):
    pool = pool or LABELS
    k = rng.choice([1, 2, 2, 3, 3, 4, 6])
    return b".".join(rng.choice(pool[:6] if rng.random() < 0.8 else pool) for _ in range(k)) + b"."


def boundary_name(rng, wire=None, suffix=None):
    """a name of exactly `wire` octets on the wire (253, 254 or the RFC 1035 maximum 255), optionally ending in the
       labels `suffix` (so that it is reached through a compression pointer): dotted length = wire - 1"""
    wire = wire or rng.choice([253, 254, 255, 255])
    labs = list(suffix or [])
    left = wire - 1 - sum(len(l) + 1 for l in labs)          # octets still to fill with (length, label) pairs
    fill = []
    while left > 0:
        n = min(left - 1, rng.choice([63, 63, 40, 17]))
        if left - 1 - n == 1:                                 # never leave room for a label of zero bytes
            n -= 1
        fill.append(bytes([rng.choice(b"xyzXQ9")]) * n)
        left -= n + 1
    return b".".join(fill + labs) + b"."


def name_pool(rng, n=5):
    """names sharing suffixes"""
    base = [rand_name(rng) for _ in range(2)]
    out = list(base)
    if rng.random() < 0.12:
        # names at the 255-octet limit, alone and sharing a suffix with a short name of the pool
        short = [b for b in base if len(b) < 60]
        out.append(boundary_name(rng))
        if short:
            out.append(boundary_name(rng, suffix=rng.choice(short)[:-1].split(b".")))
    for _ in range(n):
        b = rng.choice(out)
        labs = b[:-1].split(b".")
        k = rng.randrange(len(labs))
        pre = [rng.choice(LABELS[:6])] * rng.choice([0, 1, 1, 2])
        nm = (pre + labs[k:])[:6]
        if rng.random() < 0.35:
            # same suffix in another letter case: a different name on the wire (labels are compared byte-wise)
            j = rng.randrange(len(nm))
            nm = nm[:j] + [rng.choice([nm[j].swapcase(), nm[j].upper(), nm[j].lower()])] + nm[j + 1:]
        out.append(b".".join(nm) + b".")
    return out


def rand_attrs(rng):
    at = {}
    for _ in range(rng.choice([0, 0, 1, 2, 3])):
        k = bytes(rng.choice(b"abkz_\x00\xff") for _ in range(rng.choice([1, 1, 2, 9])))
        v = rng.choice([None, b"", b"v", b"a=b", bytes(rng.randrange(256) for _ in range(rng.randrange(0, 12)))])
        if rng.random() < 0.05:
            v = bytes(rng.randrange(256) for _ in range(254 - len(k)))    # entry of exactly 255 bytes
        at[k] = v
    if at and rng.random() < 0.15:
        # two keys that differ in letter case only are two different keys of the map
        k = rng.choice(sorted(at))
        k2 = bytes(c ^ 0x20 if (65 <= c <= 90 or 97 <= c <= 122) else c for c in k)
        if k2 != k:
            at[k2] = rng.choice([None, b"", b"w"])
        else:
            at[b"Path"], at[b"path"] = b"/a", rng.choice([b"/b", None])
    return at


def rand_record(rng, names, types=(T_A, T_AAAA, T_NSEC, T_PTR, T_SRV, T_TXT)):
    t = rng.choice(types)
    r = Rec(rng.choice(names), t, rng.random() < 0.4, rng.choice(TTLS) if rng.random() < 0.7 else rng.randrange(2 ** 32))
    if t == T_A:
        r.addr = bytes(rng.randrange(256) for _ in range(4))
    elif t == T_AAAA:
        r.addr = bytes(rng.randrange(256) for _ in range(16))
    elif t == T_PTR:
        r.target = rng.choice(names)
    elif t == T_SRV:
        r.prio, r.weight, r.port = [rng.choice([0, 1, 80, 65535, rng.randrange(65536)]) for _ in range(3)]
        r.target = rng.choice(names)
    elif t == T_TXT:
        r.attrs = rand_attrs(rng)
    elif t == T_NSEC:
        r.next = rng.choice(names)
        r.bitmap = bytes(rng.randrange(256) for _ in range(rng.choice([0, 1, 4, 6, 32, 255] if rng.random() < 0.3 else [0, 1, 4, 6, 32])))
    return r


def gen_late_message(rng):
    """a message in which some names occur for the first time beyond offset 4096 / 8192 / 12288 and are then used again,
       so that compression pointers carry the high bits of the 14-bit offset"""
    m = Msg(rng.choice([0, 1, rng.randrange(65536)]), True, False)
    early = [b"a.local.", b"local."]
    target = rng.choice([4096, 4096, 8192, 12288])
    size = 12
    while size < target + rng.choice([0, 0, 40, 300]):
        r = Rec(rng.choice(early), T_TXT, False, 120)
        r.attrs = {b"k": bytes(rng.choice(b"xyz") for _ in range(rng.choice([253, 253, 100])))}
        m.records.append(r)
        size += 2 + 10 + 1 + len(r.attrs[b"k"]) + 2 + (9 if len(m.records) == 1 else 0)
    tag = bytes(rng.choice(b"qrstuvw") for _ in range(rng.choice([3, 5, 9])))
    late = [tag + b".zone.", b"Inst." + tag + b".zone.", b"host-" + tag + b".zone.", b"zone."]
    for _ in range(rng.choice([3, 5, 8])):
        m.records.append(rand_record(rng, late))
    return m


def gen_message(rng, big=False):
    if not big and rng.random() < 0.02:
        return gen_late_message(rng)
    names = name_pool(rng)
    m = Msg(rng.choice([0, 1, 0xffff, rng.randrange(65536)]), rng.random() < 0.6, rng.random() < 0.2)
    for _ in range(rng.choice([0, 0, 1, 2, 3])):
        m.queries.append((rng.choice(names), rng.choice([1, 12, 16, 28, 33, 47, 255, 99]), rng.random() < 0.3))
    nrec = rng.choice([0, 1, 2, 3, 5, 8])
    if big:
        nrec = rng.randrange(40, 400)
    for _ in range(nrec):
        m.records.append(rand_record(rng, names))
    return m


# ------------------------------------------------------------------ independent reference encoder (C02)
def be16(x):
    return struct.pack(">H", x & 0xffff)


class RefEnc:
    """writes names choosing, per label boundary, between continuing uncompressed and a pointer to ANY
    earlier offset (before the start of the current name) at which the remaining suffix is encoded"""

    def __init__(self, rng, compress=0.6):
        self.rng, self.out, self.known, self.compress = rng, bytearray(), {}, compress

    def name(self, nm):
        labs = nm[:-1].split(b".") if nm != b"." else []
        start = len(self.out)
        mine = []
        for i in range(len(labs)):
            suf = tuple(labs[i:])
            cands = [o for o in self.known.get(suf, []) if o < start and o < 0x4000]
            if cands and self.rng.random() < self.compress:
                self.out += be16(0xC000 | self.rng.choice(cands))
                break
            mine.append((suf, len(self.out)))
            self.out.append(len(labs[i]))
            self.out += labs[i]
        else:
            self.out.append(0)
        for suf, o in mine:
            self.known.setdefault(suf, []).append(o)

    def record(self, r):
        self.name(r.name)
        self.out += be16(r.type) + be16(0x8001 if r.flush else 1) + struct.pack(">I", r.ttl)
        lenpos = len(self.out)
        self.out += b"\0\0"
        if r.raw is not None:
            self.out += r.raw
        elif r.type == T_A or r.type == T_AAAA:
            self.out += r.addr
        elif r.type == T_PTR:
            self.name(r.target)
        elif r.type == T_SRV:
            self.out += be16(r.prio) + be16(r.weight) + be16(r.port)
            self.name(r.target)
        elif r.type == T_NSEC:
            self.name(r.next)
            self.out += bytes([0, len(r.bitmap)]) + r.bitmap
        elif r.type == T_TXT:
            if r.txt_strings is not None:
                for s in r.txt_strings:
                    self.out.append(len(s))
                    self.out += s
            elif not r.attrs:
                self.out.append(0)
            else:
                for k, v in sorted(r.attrs.items()):
                    e = k if v is None else k + b"=" + v
                    self.out.append(len(e))
                    self.out += e
        n = len(self.out) - lenpos - 2
        self.out[lenpos:lenpos + 2] = be16(n)

    def message(self, m, split_counts=True):
        nr = len(m.records)
        if split_counts and nr:
            a = self.rng.randrange(nr + 1)
            b = self.rng.randrange(nr - a + 1)
            counts = (a, b, nr - a - b)
        else:
            counts = (nr, 0, 0)
        flags = (0x8400 if m.response else 0) | (0x0200 if m.truncated else 0)
        self.out += be16(m.id) + be16(flags) + be16(len(m.queries)) + be16(counts[0]) + be16(counts[1]) + be16(counts[2])
        for n, t, u in m.queries:
            self.name(n)
            self.out += be16(t) + be16(0x8001 if u else 1)
        for r in m.records:
            self.record(r)
        return bytes(self.out)


def gen_ref_case(rng):
    """a message with unsupported types and free TXT layouts, its reference encoding, and the expected decode"""
    m = gen_message(rng)
    names = name_pool(rng)
    for _ in range(rng.choice([0, 1, 2])):
        r = Rec(rng.choice(names), rng.choice([2, 5, 6, 13, 41, 99, 65535]), rng.random() < 0.5, rng.choice(TTLS))
        r.raw = bytes(rng.randrange(256) for _ in range(rng.choice([0, 1, 2, 17, 300])))
        m.records.insert(rng.randrange(len(m.records) + 1), r)
    for r in m.records:
        if r.type == T_TXT and rng.random() < 0.6:
            strs = []
            for k, v in sorted(r.attrs.items(), key=lambda kv: rng.random()):
                strs.append(k if v is None else k + b"=" + v)
                if rng.random() < 0.4:
                    strs.append(b"")
            if rng.random() < 0.4:
                strs.insert(0, b"")
            if not strs:
                strs = [b""] * rng.choice([1, 2])
            r.txt_strings = strs
    enc = RefEnc(rng, compress=rng.choice([0.0, 0.5, 0.9]))
    data = enc.message(m)
    return m, data


# ------------------------------------------------------------------ strict reference decoder (C01)
class Strict(Exception):
    pass


def ref_decode(p):
    """independent strict RFC 1035/6762 reader -> Msg; raises Strict on any non-conformance"""
    pos = [0]

    def need(n):
        if pos[0] + n > len(p):
            raise Strict("truncated at %d" % pos[0])

    def u8():
        need(1)
        v = p[pos[0]]
        pos[0] += 1
        return v

    def u16():
        need(2)
        v = (p[pos[0]] << 8) | p[pos[0] + 1]
        pos[0] += 2
        return v

    def u32():
        return (u16() << 16) | u16()

    def name_at(off, limit):
        """labels of the name at off; pointers must go strictly backwards below limit; returns (labels, end)"""
        labs, end, cur, bound = [], None, off, limit
        while True:
            if cur >= len(p):
                raise Strict("name runs off the packet")
            b = p[cur]
            if b == 0:
                cur += 1
                break
            if b & 0xC0 == 0xC0:
                if cur + 1 >= len(p):
                    raise Strict("pointer truncated")
                t = ((b & 0x3F) << 8) | p[cur + 1]
                if t >= bound:
                    raise Strict("pointer not strictly backwards")
                if end is None:
                    end = cur + 2
                bound = t
                cur = t
                continue
            if b & 0xC0:
                raise Strict("reserved label type")
            if cur + 1 + b > len(p):
                raise Strict("label runs off the packet")
            labs.append(bytes(p[cur + 1:cur + 1 + b]))
            cur += 1 + b
        if end is None:
            end = cur
        return labs, end

    def name():
        labs, end = name_at(pos[0], pos[0])
        pos[0] = end
        if not labs:
            return None
        return b".".join(labs) + b"."

    mid, flags, nq, na, nu, nd = u16(), u16(), u16(), u16(), u16(), u16()
    m = Msg(mid, bool(flags & 0x8000), bool(flags & 0x0200))
    if bool(flags & 0x8000) != bool(flags & 0x0400):
        raise Strict("QR and AA disagree")
    if flags & ~0x8600 & 0xffff:
        # RFC 6762 section 18: opcode, RD, RA, Z, AD, CD and RCODE are zero on transmission
        raise Strict("header flag bits other than QR, AA, TC are set (0x%04x)" % flags)
    for _ in range(nq):
        n = name()
        t, c = u16(), u16()
        if c & 0x7fff != 1:
            raise Strict("class")
        m.queries.append((n, t, bool(c & 0x8000)))
    for _ in range(na + nu + nd):
        n = name()
        t, c, ttl, dl = u16(), u16(), u32(), u16()
        if c & 0x7fff != 1:
            raise Strict("class")
        r = Rec(n, t, bool(c & 0x8000), ttl)
        end = pos[0] + dl
        if end > len(p):
            raise Strict("rdata runs off the packet")
        if t == T_A:
            need(4)
            r.addr = bytes(p[pos[0]:pos[0] + 4])
            pos[0] += 4
        elif t == T_AAAA:
            need(16)
            r.addr = bytes(p[pos[0]:pos[0] + 16])
            pos[0] += 16
        elif t == T_PTR:
            r.target = name()
        elif t == T_SRV:
            r.prio, r.weight, r.port = u16(), u16(), u16()
            r.target = name()
        elif t == T_NSEC:
            r.next = name()
            if u8() != 0:
                raise Strict("bitmap window")
            bl = u8()
            need(bl)
            r.bitmap = bytes(p[pos[0]:pos[0] + bl])
            pos[0] += bl
        elif t == T_TXT:
            if dl == 0:
                raise Strict("empty TXT rdata")
            while pos[0] < end:
                k = u8()
                need(k)
                s = bytes(p[pos[0]:pos[0] + k])
                pos[0] += k
                if not s:
                    continue
                i = s.find(b"=")
                if i == 0:
                    continue           # RFC 6763: strings beginning with '=' are ignored
                if i < 0:
                    r.attrs.setdefault(s, None)
                else:
                    r.attrs.setdefault(s[:i], s[i + 1:])
        else:
            pos[0] = end
        if pos[0] != end:
            raise Strict("rdlength %d does not match the rdata (%d..%d)" % (dl, end - dl, pos[0]))
        m.records.append(r)
    if pos[0] != len(p):
        raise Strict("trailing bytes")
    return m


# ------------------------------------------------------------------ C03: hostile inputs
ALPHABET = [0x00, 0x01, 0x02, 0x3f, 0x40, 0x80, 0xbf, 0xc0, 0xc1, 0xff]


def short_strings(maxlen):
    for n in range(maxlen + 1):
        for t in itertools.product(ALPHABET, repeat=n):
            yield bytes(t)


def mutants(rng, data, n):
    out = []
    L = len(data)
    for _ in range(n):
        b = bytearray(data)
        k = rng.randrange(9)
        if not L:
            out.append(bytes(b))
            continue
        if k == 0:      # bit flip
            i = rng.randrange(L)
            b[i] ^= 1 << rng.randrange(8)
        elif k == 1:    # truncate
            b = b[:rng.randrange(L)]
        elif k == 2:    # retarget a pointer / plant one
            i = rng.randrange(L - 1) if L > 1 else 0
            t = rng.choice([i, i + 2, 0, 11, 12, max(0, i - 1), rng.randrange(0x4000)])
            b[i] = 0xC0 | ((t >> 8) & 0x3F)
            if i + 1 < L:
                b[i + 1] = t & 0xFF
        elif k == 3:    # inflate a count
            i = rng.choice([4, 6, 8, 10])
            if i + 1 < L:
                b[i], b[i + 1] = rng.choice([(0xff, 0xff), (0, 0x40), (0x80, 0)])
        elif k == 4:    # inflate a length byte
            i = rng.randrange(L)
            b[i] = rng.choice([0x3f, 0x40, 0x7f, 0x80, 0xbf, 0xff, L & 0xff])
        elif k == 5:    # splice
            i, j = sorted((rng.randrange(L), rng.randrange(L)))
            b = b[:i] + b[j:] + b[i:j]
        elif k == 6:    # random byte
            b[rng.randrange(L)] = rng.randrange(256)
        elif k == 7:    # zero a run
            i = rng.randrange(L)
            for q in range(i, min(L, i + rng.randrange(1, 6))):
                b[q] = 0
        else:           # append junk
            b += bytes(rng.randrange(256) for _ in range(rng.randrange(1, 8)))
        out.append(bytes(b))
    return out
