"""shared by C04 / C09: simulated networks of real stacks (engine "net"); judged against the ground truth of the script"""
import re
import vlib
from vlib import Script
from props import host_common as hc
from props import codec_common as cc

TYPES = ["_x._tcp.local.", "_y._tcp.local."]


def hexs(s):
    return (s if isinstance(s, bytes) else s.encode()).hex()


def subnet_base(ctx):
    """an IPv4 subnet of the machine, so that hostnames answer address questions from the simulated nodes"""
    ifs = hc.parse_ifaces(hc.iface_table(ctx))
    best = None
    for ents in ifs:
        for a, p in ents:
            if a.startswith("4:") and 0 < p <= 24:
                v = int(a[2:])
                if best is None or not (v >> 24) == 127:
                    best = (v >> (32 - p)) << (32 - p)
    return best if best is not None else (127 << 24)


def run_net(ctx, scripts):
    impl, faults = vlib.run_impl(ctx.hx, scripts)
    return impl, faults


def views(lines):
    """final VIEW / HOSTNAME lines of the last VIEWS op"""
    v, h = {}, {}
    for l in lines:
        w = l.split()
        if len(w) >= 3 and w[1] == "VIEW":
            inner = l[l.index("{") + 1:l.rindex("}")]
            v[int(w[2])] = set(inner.split(";")) if inner else set()
        elif len(w) >= 5 and w[1] == "HOSTNAME":
            h[int(w[2])] = (w[3] == "1", w[4])
    return v, h
