"""shared by C05 / C06 / C18: generator of cache histories, projections, classification"""
import glob, os, re
import vlib
from vlib import Script
from explore import explore_scripts

NAMES = ["612e", "622e", "-"]            # "a." "b." and the root name (null)
TTLS = [0, 1, 2, 3, 120, 4500, 604800]
JITTERS = [0, 7, 19]
# TTLs far beyond a week whose 32-bit products record.ttl() * 500/850/900/950 wrap in the implementation without
# producing a trigger inside HUGE_BUDGET ms: odd multiples of 2^29 s, the first TTL whose milliseconds exceed 2^32,
# and the largest TTL.  Such records must simply be stored and returned (C06); nothing about them is due in the budget.
HUGE_TTLS = [1 << 29, 3 << 29, 5 << 29, 7 << 29, 4294968, (1 << 32) - 1]
HUGE_BUDGET = 1 << 29


def rec(name, rtype, variant, ttl, flush):
    addr, target, attrs = "n", "-", "_"
    if rtype == 1:
        addr = "4:%d" % (0x0A000001 + variant)
    elif rtype == 16:
        attrs = ["_", "6b=76", "6b=-"][variant % 3]
    elif rtype == 12:
        target = ["782e", "792e", "7a2e"][variant % 3]
    elif rtype == 47:
        # NSEC: same next-domain-name; type bitmaps of one length that differ only after a zero octet (name a.), and
        # bitmaps of different lengths of which one is a prefix of the other (the other names)
        bms = ["0000000040", "0000800040", "0000000041"] if name == "612e" else ["40", "40000008", "4000"]
        return "%s,47,%d,%d,n,-,%s,0,0,0,_,%s" % (name, 1 if flush else 0, ttl, name, bms[variant % 3])
    return "%s,%d,%d,%d,%s,%s,-,0,0,0,%s,." % (name, rtype, 1 if flush else 0, ttl, addr, target, attrs)


def schedule(t0, ttl, j):
    return [t0 + ttl * f + j for f in (500, 850, 900, 950)] + [t0 + 1000 * ttl]


def end_of_all_lifetimes(lines):
    """the first instant after every lifetime started in the history has elapsed"""
    now, end = 0, 0
    for l in lines:
        w = l.split()
        if w[0] == "ADD":
            ttl = int(w[1].split(",")[3])
            end = max(end, now + 1000 * ttl)
        elif w[0] in ("ADV", "ADVB", "LATE"):
            now = max(now, int(w[1]))
    return max(now, end) + 1


def lingering(script, impl_lines):
    """whatever the scheduling was (late firings included): once every lifetime has elapsed and the clock has been
    advanced exactly past that instant, the cache returns nothing"""
    if not script.meta.get("settled"):
        return None
    last = [l for l in impl_lines if l.startswith("LOOKUP ")]
    if last and last[-1] != "LOOKUP []":
        return "code=2 a record is still returned after every lifetime of the history has elapsed: " + last[-1][:200]
    return None


def gen_history(rng, nops, late=False, advb=False, huge=False):
    """advb: some advances stop at an instant with the firing due exactly then still pending (ADVB), so that the
       caller's next action - most often an ADD - is processed before the simultaneously due timer;
       huge: some records carry a TTL from HUGE_TTLS and the clock stays below HUGE_BUDGET"""
    now = 0
    lines = []
    instants = []
    pending = False          # the previous operation was an ADVB
    for _ in range(nops):
        k = rng.random()
        if pending:
            k = k * 0.6      # an ADD (75 %) or another advance follows an ADVB; a lookup now and then
            if rng.random() < 0.15:
                k = 0.9
        pending = False
        if k < 0.45 or not lines:
            name = rng.choice(NAMES[:2] if rng.random() < 0.9 else NAMES)
            rtype = rng.choice([1, 1, 16, 12, 47])
            if rng.random() < 0.04:
                rtype = 255          # a record of type ANY is a record like any other (it is not a wildcard when stored or flushed)
            ttl = rng.choice(TTLS) if rng.random() < 0.8 else rng.randrange(1, 10)
            if huge and rng.random() < 0.4:
                ttl = rng.choice(HUGE_TTLS)
            j = rng.choice(JITTERS) if rng.random() < 0.8 else rng.randrange(20)
            lines.append("ADD %s %d" % (rec(name, rtype, rng.randrange(3), ttl, rng.random() < 0.3), j))
            if ttl and ttl not in HUGE_TTLS:
                instants += schedule(now, ttl, j)
        elif k < 0.8:
            fut = sorted(set(t for t in instants if t >= now))
            exact = False
            if fut and rng.random() < 0.85:
                base = rng.choice(fut[:6])
                off = rng.choice([0, 0, 0, -1, 1, 5])
                t = max(now, base + off)
                exact = off == 0
            else:
                t = now + rng.choice([0, 1, 10, 499, 1000, 60000, 3600000])
            if huge and t >= HUGE_BUDGET:
                continue
            if late and rng.random() < 0.3:
                lines.append("LATE %d" % t)
            elif advb and t > now and rng.random() < (0.6 if exact else 0.15):
                lines.append("ADVB %d" % t)
                pending = True
            else:
                lines.append("ADV %d" % t)
            now = t
        else:
            lines.append("LOOKUP %s %d" % (rng.choice(NAMES + ["632e"]), rng.choice([1, 16, 12, 255, 255])))
    # settle: cross every remaining instant, then look at what is left
    fut = [t for t in instants if t >= now]
    if fut and rng.random() < 0.7 and not (huge and max(fut) + 1 >= HUGE_BUDGET):
        lines.append("ADV %d" % (max(fut) + 1))
    lines.append("LOOKUP - 255")
    return lines


def bulk_history(rng, n):
    """hundreds of records alive at once (an mDNS cache on a busy link): n distinct records of mixed TTLs, then
    lookups, a victim with a short TTL in the middle, and advances across its lifetime"""
    lines, now = [], 0
    k = rng.randrange(n)
    for i in range(n):
        name = ("n%03d." % i).encode().hex()
        ttl = 3 if i == k else rng.choice([120, 4500, 604800])
        lines.append("ADD %s %d" % (rec(name, rng.choice([1, 16, 12]), i % 3, ttl, False), rng.choice(JITTERS)))
        if i % 97 == 0:
            now += 1
            lines.append("ADV %d" % now)
    victim = ("n%03d." % k).encode().hex()
    lines += ["LOOKUP %s 255" % victim, "ADV %d" % (now + 1499), "LOOKUP %s 255" % victim, "ADV %d" % (now + 2999),
              "LOOKUP %s 255" % victim, "ADV %d" % (now + 3001), "LOOKUP %s 255" % victim, "ADV %d" % (now + 60001), "LOOKUP - 1"]
    return lines


def alphabet():
    """11 letters for the exhaustive enumeration of short histories"""
    a = rec("612e", 1, 0, 1, False)
    return ["ADD %s 0" % a,
            "ADD %s 19" % rec("612e", 1, 0, 2, True),
            "ADD %s 7" % rec("612e", 1, 1, 1, False),
            "ADD %s 0" % rec("612e", 1, 0, 0, False),
            "ADD %s 0" % rec("612e", 1, 2, 0, True),
            "ADD %s 0" % rec("622e", 16, 1, 1, False),
            "ADV+ 500", "ADV+ 950", "ADV+ 1000", "ADVB+ 500", "LOOKUP - 255"]


def enum_histories(n):
    al = alphabet()
    out = []

    def go(prefix, k):
        if k == 0:
            out.append(prefix)
            return
        for x in al:
            go(prefix + [x], k - 1)
    for k in range(1, n + 1):
        go([], k)
    res = []
    for h in out:
        now, lines = 0, []
        for x in h:
            if x.startswith("ADV+") or x.startswith("ADVB+"):
                now += int(x.split()[1])
                lines.append("%s %d" % (x.split()[0][:-1], now))
            else:
                lines.append(x)
        lines.append("LOOKUP - 255")
        res.append(lines)
    return res


def corpus_scripts(pid):
    out = []
    for p in sorted(glob.glob(os.path.join(vlib.VERIF, "corpus", "cache_*.txt"))):
        with open(p) as f:
            lines = [l.rstrip("\n") for l in f if l.strip() and not l.startswith("#") and not l.startswith("===")]
        out.append(Script("corpus-" + os.path.basename(p)[:-4], "cache", lines))
    return out


def explore(ctx, project, attribute, replay=None, search_boost=False):
    scripts = []
    if replay:
        with open(replay) as f:
            txt = f.read()
        m = re.search(r"=== \S+ cache[^\n]*\n(.*?)\n(?:---|\Z)", txt, flags=re.S)
        lines = [l for l in (m.group(1) if m else txt).splitlines() if l.strip() and not l.startswith("#")]
        scripts = [Script("replay", "cache", lines)]
    else:
        scripts += corpus_scripts(ctx.pid)
        n = 1000 if ctx.tier == "quick" else 30000
        if search_boost:
            n *= 5
        for i in range(n):
            scripts.append(Script("g%d" % i, "cache", gen_history(ctx.rng, ctx.rng.randrange(2, 30 if ctx.tier == "quick" else 60))))
        # caller actions processed before a simultaneously due timer (ADVB), and TTLs far beyond a week (C06)
        nb = 400 if ctx.tier == "quick" else 10000
        for i in range(nb):
            scripts.append(Script("b%d" % i, "cache", gen_history(ctx.rng, ctx.rng.randrange(3, 30), advb=True)))
        nh = 150 if ctx.tier == "quick" else 3000
        for i in range(nh):
            scripts.append(Script("h%d" % i, "cache", gen_history(ctx.rng, ctx.rng.randrange(2, 20), advb=ctx.rng.random() < 0.3, huge=True)))
        for i in range(2 if ctx.tier == "quick" else 12):
            scripts.append(Script("k%d" % i, "cache", bulk_history(ctx.rng, ctx.rng.choice([520, 600, 700, 1100]))))
        depth = 3 if ctx.tier == "quick" else 5
        for i, h in enumerate(enum_histories(depth)):
            scripts.append(Script("e%d" % i, "cache", h))
        # late-firing histories: correspondence only (the monitor speaks about exact scheduling)
        nl = 200 if ctx.tier == "quick" else 5000
        late = []
        for i in range(nl):
            h = gen_history(ctx.rng, ctx.rng.randrange(2, 30), late=True)
            h = h[:-1] + ["ADV %d" % end_of_all_lifetimes(h), "LOOKUP - 255"]      # settle exactly, then look
            late.append(Script("l%d" % i, "cache", h, meta={"settled": True}))
    env = {"VERIF_JITTER_BOUND": "20"}

    def classify(kind, detail, s):
        return signature(kind, detail, s)

    res = explore_scripts(ctx, scripts, mon_engine="mon-cache", project=project, classify=classify, env=env,
                          attribute=attribute)
    if not replay:
        res2 = explore_scripts(ctx, late, mon_engine=None, project=project, classify=classify, env=env, judge=lingering)
        res["late_firing_histories"] = res2["evaluations"]
        res["evaluations"] += res2["evaluations"]
        res["traces_validated_against_impl"] += res2["traces_validated_against_impl"]
        res["violations"] += res2["violations"]
        res["exhaustive_depth"] = depth
        res["exhaustive"] = False
    res["rule"] = ("histories of ADD/ADV/LOOKUP (+LATE) over 3 names x 4 types (A, TXT, PTR, NSEC with bitmaps differing after a zero octet) x 3 data values x TTL in "
                   "{0,1,2,3,120,4500,604800,..} x flush x jitter, advances aimed at trigger and expiry instants "
                   "(-1/0/+1 ms), some of them stopping with the firing due at that very instant still pending (ADVB) so that the next ADD or LOOKUP is processed first; histories with TTLs far beyond a week (odd multiples of 2^29 s, 4294968 s, 2^32-1 s) under a clock below 2^29 ms; bulk histories with 520..1100 records alive at once; plus every history of <= %s operations over an 11-letter alphabet; a case is "
                   "non-trivial when the implementation produced at least one signal or non-empty lookup; "
                   "distinct = distinct operation sequences" % (res.get("exhaustive_depth", "-")))
    return res


def signature(kind, detail, s):
    """stable signature of a failure, used to match known findings"""
    if kind == "monitor" or kind == "model-rejected":
        m = re.search(r"code=(\d+)", detail)
        k = re.search(r"op=(\d+)", detail)
        opk = s.lines[int(k.group(1))].split()[0] if k and int(k.group(1)) < len(s.lines) else "?"
        return "monitor:%s:%s" % (opk, m.group(1) if m else "?")
    return kind


def sig_lines(lines, names, with_snapshot):
    out = []
    for l in lines:
        w = l.split()
        if len(w) >= 3 and w[1] == "SIG":
            if w[2] in names:
                out.append(l if with_snapshot else " ".join(w[:4]))
        elif w and w[0] == "LOOKUP" and "LOOKUP" in names:
            out.append(l)
        elif l.startswith("FAULT") or l.startswith("ERROR"):
            out.append(l)
    return out
