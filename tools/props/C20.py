import itertools, re
import vlib
from vlib import Script
from props import codec_common as cc
import gen_codec as G

SPEC = {
    "properties_file": "Properties_C20.v",
    "facts": ["record_eq_fields", "record_private_fields", "service_eq_fields", "service_private_fields"],
    "assumptions": ["the heap discipline is proved of the model of bitmap.cpp on an abstract heap and sanitizer-checked (ASan) on the sampled "
                    "programs against the real classes; Qt's implicitly shared containers are treated as pure values",
                    "a Service's port is set before it is read (the default port is indeterminate)"],
    "trusted_extra": ["ASan/UBSan instrumentation of the library and harness"],
}

BYTES = [".", "00", "0102", "ff" * 32, "ab" * 255]
LAST = {}      # variable kind -> the record most recently generated (for single-field variants)


def variant(rng, r):
    """a copy of record r differing in exactly one field - for the address, also in representation only
       (a.b.c.d against ::ffff:a.b.c.d, 127.0.0.1 against ::1), which are different field values"""
    import copy, struct
    v = copy.copy(r)
    v.attrs = dict(r.attrs)
    f = rng.choice(["addr", "addr", "addr", "name", "type", "target", "next", "prio", "weight", "port", "attrs", "bitmap", "ttl", "flush", "none"])
    if r.type == 47 and rng.random() < 0.5:
        f = "bitmap"
    if f == "addr":
        if r.addr is not None and len(r.addr) == 4:
            v.addr = rng.choice([b"\x00" * 10 + b"\xff\xff" + r.addr, b"\x00" * 12 + r.addr, None, bytes([r.addr[0] ^ 1]) + r.addr[1:]])
        elif r.addr is not None and r.addr[:12] == b"\x00" * 10 + b"\xff\xff":
            v.addr = r.addr[12:]
        else:
            a4 = bytes(rng.randrange(256) for _ in range(4))
            v.addr = rng.choice([a4, b"\x00" * 10 + b"\xff\xff" + a4, b"\x7f\x00\x00\x01", b"\x00" * 15 + b"\x01", None])
    elif f == "name":
        v.name = (r.name or b"") + b"a."
    elif f == "type":
        v.type = rng.choice([t for t in (1, 28, 12, 16, 33, 47) if t != r.type])
    elif f == "target":
        v.target = b"t." if r.target != b"t." else b"u."
    elif f == "next":
        v.next = b"n." if r.next != b"n." else b"m."
    elif f in ("prio", "weight", "port"):
        setattr(v, f, (getattr(r, f) + 1) % 65536)
    elif f == "attrs":
        v.attrs[b"zz"] = None if v.attrs.get(b"zz", b"") is not None else b""
    elif f == "bitmap":
        if 0 in r.bitmap[:-1]:
            # same length, equal up to and including a zero octet, different after it
            v.bitmap = r.bitmap[:-1] + bytes([r.bitmap[-1] ^ 0x40])
        else:
            v.bitmap = r.bitmap + b"\x01" if len(r.bitmap) < 255 else b""
    elif f == "ttl":
        v.ttl = (r.ttl + 1) % 2 ** 32
    elif f == "flush":
        v.flush = not r.flush
    return v


def rand_value_op(rng, v, kind):
    if kind == "bitmap":
        return "SETBYTES %s %s" % (v, rng.choice(BYTES))
    if kind == "record":
        if "record" in LAST and rng.random() < 0.45:
            r = variant(rng, LAST["record"])
        else:
            r = G.rand_record(rng, G.name_pool(rng, 2))
            if rng.random() < 0.3:
                a4 = bytes(rng.randrange(256) for _ in range(4))
                r.addr = rng.choice([a4, b"\x00" * 10 + b"\xff\xff" + a4])
            if r.type == 47 and rng.random() < 0.6:
                r.bitmap = rng.choice([bytes.fromhex("0000000040"), bytes.fromhex("0000800040"), bytes.fromhex("00ff"), bytes.fromhex("400000000008")])
        LAST["record"] = r
        return "SETREC %s %s" % (v, r.tok())
    if kind == "message":
        return "SETMSG %s %s" % (v, G.gen_message(rng).tok())
    if kind == "query":
        return "SETQRY %s %s,%d,%d" % (v, rng.choice(["612e", "-", "."]), rng.choice([1, 12, 255]), rng.randrange(2))
    return "SETSVC %s %s,%s,%s,%d,%s" % (v, rng.choice(["5f782e", "-"]), rng.choice(["49", "4a", "-"]), rng.choice(["682e", "672e", "-"]),
                                       rng.choice([0, 80, 65535]), rng.choice(["_", "6b=76", "6b=-", "61=62+63=."]))


def pair_program(rng):
    """two records that differ in exactly one field (or in nothing): equality must see every data field, in both
    directions, also on a copy changed afterwards and after an assignment"""
    r = G.rand_record(rng, G.name_pool(rng, 2))
    if r.type in (1, 28) and rng.random() < 0.7:
        a4 = bytes(rng.randrange(256) for _ in range(4))
        r.addr = rng.choice([a4, b"\x00" * 10 + b"\xff\xff" + a4, b"\x00" * 12 + a4])
    if r.type == 47:
        r.bitmap = rng.choice([bytes.fromhex("0000000040"), bytes.fromhex("40"), bytes.fromhex("400000000008"), b""])
    v = variant(rng, r)
    lines = ["NEW a record", "SETREC a " + r.tok(), "NEW b record", "SETREC b " + v.tok(), "EQ a b", "EQ b a",
             "COPY c a", "EQ c a", "SETREC c " + v.tok(), "EQ c a", "EQ c b", "ASSIGN a b", "EQ a b", "EQ a c",
             "SETREC b " + r.tok(), "EQ a b", "GET a", "GET b", "GET c"]
    return lines


def gen_program(rng, n):
    if rng.random() < 0.2:
        return pair_program(rng)
    kind = rng.choice(["bitmap", "bitmap", "record", "record", "message", "query", "service"])
    LAST.clear()
    names = ["a", "b", "c", "d"]
    live = set()
    lines = []
    for _ in range(n):
        r = rng.random()
        dead = [x for x in names if x not in live]
        if (r < 0.2 or not live) and dead:
            v = rng.choice(dead)
            lines.append("NEW %s %s" % (v, kind))
            live.add(v)
            if kind == "service" or rng.random() < 0.6:
                lines.append(rand_value_op(rng, v, kind))
        elif r < 0.32 and dead and live:
            v = rng.choice(dead)
            lines.append("COPY %s %s" % (v, rng.choice(sorted(live))))
            live.add(v)
        elif r < 0.52:
            a = rng.choice(sorted(live))
            b = a if rng.random() < 0.3 else rng.choice(sorted(live))
            lines.append("ASSIGN %s %s" % (a, b))
        elif r < 0.68:
            lines.append(rand_value_op(rng, rng.choice(sorted(live)), kind))
        elif r < 0.73 and kind == "bitmap":
            lines.append("SETSELF %s %d" % (rng.choice(sorted(live)), rng.choice([0, 0, 1, 2])))
        elif r < 0.83:
            lines.append("EQ %s %s" % (rng.choice(sorted(live)), rng.choice(sorted(live))))
        elif r < 0.93:
            lines.append("GET %s" % rng.choice(sorted(live)))
        else:
            v = rng.choice(sorted(live))
            lines.append("DEL %s" % v)
            live.discard(v)
    for v in sorted(live):
        lines.append("GET %s" % v)
    return lines


def enum_programs(depth):
    """every program of <= depth operations over two bitmap / record variables from a small alphabet"""
    out = []
    for kind, setop in (("bitmap", ["SETBYTES %s 0102", "SETBYTES %s .", "SETSELF %s 1"]),
                        ("record", ["SETREC %s 612e,47,0,1,n,-,622e,0,0,0,_,0102"])):
        al = []
        for v, w in (("a", "b"), ("b", "a")):
            al += ["NEW %s %s" % (v, kind), "COPY %s %s" % (v, w), "ASSIGN %s %s" % (v, w), "ASSIGN %s %s" % (v, v), "DEL %s" % v, "GET %s" % v]
            al += [s % v for s in setop]
        al.append("EQ a b")
        for n in range(1, depth + 1):
            for combo in itertools.product(al, repeat=n):
                out.append(["NEW a %s" % kind, setop[0] % "a"] + list(combo) + ["GET a"])
    return out


def explore(ctx, replay=None, search_boost=False):
    rng = ctx.rng
    if replay:
        txt = open(replay).read()
        m = re.search(r"=== \S+ values[^\n]*\n(.*?)\n(?:\n---|\Z)", txt, flags=re.S)
        progs = [[l for l in (m.group(1) if m else txt).splitlines() if l.strip() and not l.startswith("=")]]
    else:
        n = (1500 if ctx.tier == "quick" else 60000) * (4 if search_boost else 1)
        progs = [gen_program(rng, rng.randrange(2, 16)) for _ in range(n)]
        depth = 2 if ctx.tier == "quick" else 3
        progs += enum_programs(depth)
    scripts = [Script("p%d" % i, "values", p) for i, p in enumerate(progs)]
    pure = [Script(s.id, "values-pure", s.lines) for s in scripts]
    model = vlib.run_model(ctx.driver, scripts)
    spec = vlib.run_model(ctx.driver, pure)
    impl, faults = vlib.run_impl(ctx.hx, scripts)
    violations = []
    nontrivial = set()
    for s in scripts:
        io, mo, so = impl.get(s.id, []), model.get(s.id, []), spec.get(s.id, [])
        if any(l.startswith("VAL") or l.startswith("EQ") for l in io):
            nontrivial.add("\n".join(s.lines))
        fault = next((l for l in io if l.startswith("FAULT") or l.startswith("ERROR")), None)
        if fault:
            cc.report(ctx, violations, "fault", "%s in a program of %d operations" % (fault, len(s.lines)), s.lines, io, mo,
                      extra="\n--- sanitizer output ---\n" + faults.get(s.id, ""), signature="fault")
        elif any(l.startswith("FAULT") for l in mo):
            cc.report(ctx, violations, "model-fault", "the heap model reads or frees a block that is not live", s.lines, io, mo, signature="model-fault")
        elif io != so:
            k = next((i for i, (a, b) in enumerate(zip(io, so)) if a != b), min(len(io), len(so)))
            cc.report(ctx, violations, "monitor", "objects do not behave as independent values: output line %d is %r, the value semantics "
                      "gives %r" % (k, io[k] if k < len(io) else None, so[k] if k < len(so) else None), s.lines, io, so, signature="monitor")
        elif io != mo:
            cc.report(ctx, violations, "correspondence", "heap model and implementation differ", s.lines, io, mo, nofail=True)
    for v in violations:
        # replays of this engine are value programs
        pass
    return {"evaluations": len(scripts), "distinct_nontrivial": len(nontrivial), "traces_validated_against_impl": len(scripts),
            "exhaustive_depth": None if replay else depth,
            "rule": "programs of NEW / COPY / ASSIGN (incl. x = x) / every setter / setData(n, own data()) / EQ / GET / DEL over up to four "
                    "variables of one class (Bitmap, Record with NSEC bitmaps, Message, Query, Service), random and every program of <= "
                    "the stated depth over two variables; run on the real classes under ASan, on the heap model and on the pure value "
                    "semantics; non-trivial = produced a value or a comparison; distinct = distinct programs",
            "samples": [{"program": p[:10]} for p in progs[:2]],
            "violations": violations}
