import re
from vlib import Script
import vlib
from props import net_common as nc
from props import codec_common as cc

SPEC = {
    "properties_file": "Properties_C09.v",
    "facts": ["hostname_conflict", "hostname_question", "prober_conflict", "provider_q_srv", "registration_wait_ms", "probe_wait_ms"],
    "assumptions": ["every query + response round trip is shorter than the 2 s probe wait (no implementation can defend a name otherwise)",
                    "participants start one after another, each after the previous one has confirmed its names"],
}

STYPE = "_x._tcp.local."


def gen_net(rng, base):
    n = rng.choice([2, 2, 3, 3, 4, 5])
    lines = ["LOG on", "DUP %s" % rng.choice(["on", "off"])]
    hostname = rng.choice(["vm", "vm", "vm", "BuildHost", "B\u00fcro"])      # the machine name all participants want
    for i in range(n):
        lines.append("NODE %d 4:%d %s" % (i, base + 10 + i, nc.hexs(hostname)))
    maxd = rng.choice([1, 20, 300, 600, 900, 950])
    slow = rng.random() < 0.15       # every link near one second: a round trip of just under the 2 s probe wait
    if slow:
        maxd = 975
    for i in range(n):
        for j in range(n):
            if i != j:
                lines.append("DELAY %d %d %d" % (i, j, rng.choice([900, 950, 975]) if slow else rng.choice([1, maxd // 2 + 1, maxd])))
    now = 0
    starts = []
    with_service = rng.random() < 0.6
    for i in range(n):
        starts.append(now)
        lines += ["HOST %d" % i]
        if with_service:
            lines += ["PROVIDER %d" % i, "UPDATE %d %s,%s,-,%d,_" % (i, nc.hexs(STYPE), nc.hexs("Printer"), 600 + i)]
        # long enough for i candidates of the hostname and of the instance name, each a 2 s probe plus round trips
        settle = (i + 2) * 2 * (2000 + 2 * maxd) + 3000
        if rng.random() < 0.25:
            # hours later, possibly inside an incumbent's periodic re-probe
            k = rng.choice([1, 2])
            gap = max(settle, k * 1800000 + rng.choice([-3000, 0, 500, 1500, 2500, 60000]) - (now - starts[0]) % 1800000)
        else:
            gap = settle + rng.choice([0, 1, 137, 405, 449, 499, 777, 5000])
            if slow:
                gap += (rng.choice([251, 405, 449, 499]) - (now + gap)) % 1000     # the phase of the start instant within its second   # also fractional-second phases (timer rounding)
        now += gap
        lines.append("ADV %d" % now)
    now += 10 * (2000 + 2 * maxd)
    lines += ["ADV %d" % now, "VIEWS"]
    return lines, starts


def served_names(out):
    """node -> instance name of its last announcement with nonzero TTL (None after a goodbye)"""
    served = {}
    for l in out:
        w = l.split()
        if len(w) == 5 and w[1] == "NODE" and w[3] == "SENTALL":
            f = w[4].split("|")
            if len(f) == 7 and f[3] == "1" and f[6]:
                recs = [r.split(",") for r in f[6].split(";")]
                srv = [r for r in recs if len(r) == 12 and r[1] == "33"]
                if srv:
                    served[int(w[2])] = srv[0][0] if srv[0][3] != "0" else None
    return served


def hostname_probes(out):
    """node -> instants at which it multicast a hostname probe (a query with exactly an A and an AAAA question, no records)"""
    pr = {}
    for l in out:
        w = l.split()
        if len(w) == 5 and w[1] == "NODE" and w[3] == "SENTALL":
            f = w[4].split("|")
            if len(f) == 7 and f[3] == "0" and not f[6]:
                qs = [q.split(",") for q in f[5].split(";")] if f[5] else []
                if len(qs) == 2 and sorted(q[1] for q in qs) == ["1", "28"]:
                    pr.setdefault(int(w[2]), []).append(int(w[0]))
    return pr


def incumbent_reprobing(out, i, j, name):
    """was the holder i of `name` busy with its own periodic re-probe while j completed its probe for `name` (or vice versa)?"""
    probes = hostname_probes(out)
    regs = {}
    for l in out:
        w = l.split()
        if len(w) == 6 and w[3] == "SIG" and w[4] == "hostnameChanged" and w[5] == name:
            regs.setdefault(int(w[2]), []).append(int(w[0]))
    for a, b in ((i, j), (j, i)):
        for t in regs.get(b, []):
            # b registered `name` at t: its 2 s probe ran in [t - 2000, t]; was a (re-)probing around then although it had
            # been registered before?
            earlier = [p for p in probes.get(a, []) if t - 6000 <= p <= t + 100]
            first = min(probes.get(a, [t + 1]))
            if earlier and first < t - 6000:
                return True
    return False


def explore(ctx, replay=None, search_boost=False):
    rng = ctx.rng
    base = nc.subnet_base(ctx)
    if replay:
        txt = open(replay).read()
        m = re.search(r"=== \S+ net[^\n]*\n(.*?)\n(?:\n---|\Z)", txt, flags=re.S)
        lines = [l for l in (m.group(1) if m else txt).splitlines() if l.strip() and not l.startswith("=")]
        cases = [(lines, [])]
    else:
        n = (120 if ctx.tier == "quick" else 3000) * (3 if search_boost else 1)
        cases = [gen_net(rng, base) for _ in range(n)]
    scripts = [Script("n%d" % i, "net", c[0]) for i, c in enumerate(cases)]
    impl, faults = nc.run_net(ctx, scripts)
    violations = []
    nontrivial = set()
    for s, (lines, starts) in zip(scripts, cases):
        out = impl.get(s.id, [])
        fault = next((l for l in out if l.startswith("FAULT") or l.startswith("ERROR")), None)
        if fault:
            cc.report(ctx, violations, "fault", fault, lines, out[-20:], [], extra="\n" + faults.get(s.id, ""), signature="fault")
            continue
        v, h = nc.views(out)
        names = {i: nm for i, (reg, nm) in h.items() if reg}
        # a participant that announced a name (hostnameChanged), never announced another, and at the end is neither
        # registered nor in the middle of a probe (no probe of its own in the last 3 s) still counts as holding that name
        end = max([int(l.split()[0]) for l in out if l.split() and l.split()[0].isdigit()] or [0])
        probes = hostname_probes(out)
        last_note = {}
        for l in out:
            w = l.split()
            if len(w) == 6 and w[1] == "NODE" and w[3] == "SIG" and w[4] == "hostnameChanged":
                last_note[int(w[2])] = w[5]
        for i, (reg, nm) in h.items():
            if not reg and i in last_note and not [p for p in probes.get(i, []) if p >= end - 3000]:
                names.setdefault(i, last_note[i])
        if len(set(names.values())) > 1:
            nontrivial.add("\n".join(lines))
        brief = [l for l in out if l != "." and " SENT" not in l][-20:]
        dup = [(i, j) for i in names for j in names if i < j and names[i] == names[j]]
        if dup:
            i, j = dup[0]
            sig = "dup-hostname"
            if incumbent_reprobing(out, i, j, names[i]):
                sig = "dup-hostname:incumbent-reprobing"
            cc.report(ctx, violations, "monitor", "nodes %d and %d both registered the hostname %s" % (i, j, bytes.fromhex(names[i]).decode(errors="replace")),
                      lines, brief, [], signature=sig)
        served = {i: nm for i, nm in served_names(out).items() if nm}
        dups = [(i, j) for i in served for j in served if i < j and served[i] == served[j]]
        if dups:
            i, j = dups[0]
            cc.report(ctx, violations, "monitor", "nodes %d and %d both confirmed and serve the instance name %s" % (i, j, bytes.fromhex(served[i]).decode(errors="replace")),
                      lines, brief, [], signature="dup-service-name:any-probe-unanswered")
    return {"evaluations": len(scripts), "distinct_nontrivial": len(nontrivial), "traces_validated_against_impl": len(scripts),
            "rule": "networks of 2..5 nodes that all want one host name ('vm', or a mixed-case / non-ASCII one) (and, in 60 % of the cases, the service instance "
                    "'Printer._x._tcp.local.'), started one after another after the previous one had time to confirm, link delays 1..900 ms "
                    "(round trip < 2 s), optional multicast duplication, some newcomers hours later around the incumbents' 30-minute "
                    "re-probe; real Hostname/Provider/Prober objects through the real codec; at the end the registered host names and the "
                    "served instance names must be pairwise distinct; non-trivial = at least two different host names were registered; "
                    "distinct = distinct scripts",
            "samples": [{"script": cases[0][0][:16]}] if cases else [],
            "violations": violations}
