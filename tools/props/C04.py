import re
from vlib import Script
import vlib
from props import net_common as nc
from props import codec_common as cc

SPEC = {
    "properties_file": "Properties_C04.v",
    "facts": ["T_PTR", "T_SRV", "T_TXT", "browse_type", "default_ttl"],
    "assumptions": ["no loss, per-link FIFO delays, duplicated multicasts; instance names and host names conflict-free (the conflicting case is C09)",
                    "the end-to-end statement is decided on simulated networks of the real stacks through the real codec; the Rocq "
                    "theorems cover the single hops (announcement -> report, goodbye -> removal) on the tied component models"],
}

NAMES = ["Alpha", "Beta", "Caf\u00e9 Zo\u00eb", "Delta"]       # one instance name with non-ASCII (UTF-8) bytes


def svc(stype, name, port, attrs):
    return "%s,%s,-,%d,%s" % (nc.hexs(stype), nc.hexs(name), port, attrs)


def gen_net(rng, base):
    np_, nb = rng.choice([1, 1, 2, 3, 4]), rng.choice([1, 1, 2, 3])
    # sequential histories: every provider has gone and the records it left have expired (the browsers' caches run
    # empty at a timeout) before the next one starts
    sequential = rng.random() < 0.3
    if sequential:
        np_ = rng.choice([2, 3, 4])
        nb = rng.choice([1, 2])
    lines = ["DUP %s" % rng.choice(["on", "off"])]
    nodes = list(range(np_ + nb))
    for i in nodes:
        lines.append("NODE %d 4:%d %s" % (i, base + 10 + i, nc.hexs("node%d" % i)))
    for i in nodes:
        for j in nodes:
            if i != j and rng.random() < 0.7:
                lines.append("DELAY %d %d %d" % (i, j, rng.choice([1, 5, 20, 100, 300])))
    now = 0
    state = {}      # provider node -> dict(alive, connected, svc=(type,name,port,attrs), started)
    browsers = {}   # node -> type
    pending_b = list(range(np_, np_ + nb))
    pending_p = list(range(np_))
    rng.shuffle(pending_p)
    nevents = rng.randrange(4, 16)
    last_disconnect = None

    def adv(dt):
        nonlocal now
        now += dt
        lines.append("ADV %d" % now)

    def update(i, rename=None):
        old = state[i]["svc"]
        if rename is None:
            rename = old is not None and rng.random() < 0.3
        name = NAMES[i] if (old is None or not rename) else (NAMES[i] + "X" if old[1] == NAMES[i] else NAMES[i])
        stype = old[0] if (old and rng.random() < 0.8) else rng.choice(nc.TYPES)
        s = (stype, name, rng.choice([80, 631, 9100]), rng.choice(["_", "6b=76", "61=62+63=."]))
        lines.append("UPDATE %d %s" % (i, svc(*s)))
        state[i]["svc"] = s

    # the first provider starts, registers its hostname and offers something
    i0 = pending_p.pop()
    lines += ["HOST %d" % i0, "PROVIDER %d" % i0]
    state[i0] = {"alive": True, "connected": True, "svc": None}
    if rng.random() < 0.8:
        adv(rng.choice([0, 1000, 2000, 2500]))
    update(i0)
    if sequential:
        i = pending_b.pop()
        t = rng.choice([state[i0]["svc"][0], "_services._dns-sd._udp.local."])
        lines.append("BROWSER %d %s" % (i, nc.hexs(t)))
        browsers[i] = t

    def after_vanish():
        nonlocal last_disconnect
        if not sequential or any(st["alive"] and st["connected"] for st in state.values()):
            return
        adv(rng.choice([2500, 6000]))
        adv(rng.choice([3700, 4600, 9000]) * 1000)
        if pending_p:
            i = pending_p.pop()
            lines.extend(["HOST %d" % i, "PROVIDER %d" % i])
            state[i] = {"alive": True, "connected": True, "svc": None}
            adv(rng.choice([0, 2000, 2500]))
            update(i)
            adv(rng.choice([2500, 6000, 30000]))

    for _ in range(nevents):
        r = rng.random()
        live = [i for i in sorted(state) if state[i]["alive"] and state[i]["connected"]]
        if pending_p and r < (0.05 if sequential else 0.15):
            i = pending_p.pop()
            lines += ["HOST %d" % i, "PROVIDER %d" % i]
            state[i] = {"alive": True, "connected": True, "svc": None}
            if rng.random() < 0.7:
                update(i)
        elif pending_b and r < 0.3:
            i = pending_b.pop()
            t = rng.choice(nc.TYPES + ["_services._dns-sd._udp.local."])
            lines.append("BROWSER %d %s" % (i, nc.hexs(t)))
            browsers[i] = t
        elif r < 0.55 and live:
            update(rng.choice(live))
        elif r < 0.62 and live:
            # a change followed closely by destruction (while the re-probe for the new name may still be pending)
            i = rng.choice(live)
            update(i, rename=rng.random() < 0.7)
            adv(rng.choice([0, 1, 500, 1999, 2000, 2500]))
            lines.append("DESTROY %d" % i)
            state[i]["alive"] = False
            after_vanish()
        elif r < (0.72 if sequential else 0.66) and live:
            i = rng.choice(live)
            lines.append("DESTROY %d" % i)
            state[i]["alive"] = False
            after_vanish()
        elif r < (0.85 if sequential else 0.70) and live:
            i = rng.choice(live)
            lines.append("DISCONNECT %d" % i)
            state[i]["connected"] = False
            last_disconnect = now
            after_vanish()
        else:
            adv(rng.choice([0, 1, 500, 1999, 2000, 2001, 4000, 6000, 6000, 30000]))
    for i in pending_b:
        t = rng.choice(nc.TYPES)
        lines.append("BROWSER %d %s" % (i, nc.hexs(t)))
        browsers[i] = t
    # drain: probes, announcements, follow-up questions
    now += 12000
    lines += ["ADV %d" % now, "VIEWS"]
    if last_disconnect is not None:
        now += 3700 * 1000        # past the SRV TTL of whatever a vanished provider had announced
        lines += ["ADV %d" % now, "VIEWS"]
    expected = {}
    for b, t in browsers.items():
        exp = set()
        for i, st in state.items():
            if st["alive"] and st["connected"] and st["svc"] and (t == "_services._dns-sd._udp.local." or st["svc"][0] == t):
                s = st["svc"]
                exp.add("%s,%s,%s,%d,%s" % (nc.hexs(s[0]), nc.hexs(s[1]), nc.hexs("node%d.local." % i), s[2], s[3]))
        expected[b] = exp
    return lines, expected, last_disconnect is not None


def explore(ctx, replay=None, search_boost=False):
    rng = ctx.rng
    base = nc.subnet_base(ctx)
    cases = []
    if replay:
        txt = open(replay).read()
        m = re.search(r"=== \S+ net[^\n]*\n(.*?)\n(?:\n---|\Z)", txt, flags=re.S)
        lines = [l for l in (m.group(1) if m else txt).splitlines() if l.strip() and not l.startswith("=")]
        em = re.search(r"--- expected views ---\n(.*?)\n(?:\n---|\Z)", txt, flags=re.S)
        expected = eval(em.group(1)) if em else {}
        cases = [(lines, expected, False)]
    else:
        n = (150 if ctx.tier == "quick" else 3000) * (3 if search_boost else 1)
        cases = [gen_net(rng, base) for _ in range(n)]
    scripts = [Script("n%d" % i, "net", c[0]) for i, c in enumerate(cases)]
    impl, faults = nc.run_net(ctx, scripts)
    violations = []
    nontrivial = set()
    for s, (lines, expected, _) in zip(scripts, cases):
        out = impl.get(s.id, [])
        fault = next((l for l in out if l.startswith("FAULT") or l.startswith("ERROR")), None)
        if fault:
            cc.report(ctx, violations, "fault", fault, lines, out[-20:], [], extra="\n" + faults.get(s.id, ""), signature="fault")
            continue
        v, h = nc.views(out)
        if any("SIG service" in l for l in out):
            nontrivial.add("\n".join(lines))
        bad = [(b, sorted(v.get(b, set())), sorted(exp)) for b, exp in expected.items() if v.get(b, set()) != exp]
        if bad:
            b, got, exp = bad[0]
            cc.report(ctx, violations, "monitor", "browser on node %d ends with %d service(s) %s; the live providers of its type offer %s"
                      % (b, len(got), got, exp), lines, [l for l in out if l != "."][-25:], [],
                      extra="\n--- expected views ---\n%r\n" % expected, signature="monitor")
    for v_ in violations:
        pass
    return {"evaluations": len(scripts), "distinct_nontrivial": len(nontrivial), "traces_validated_against_impl": len(scripts),
            "rule": "networks of 1..4 provider nodes and 1..3 browser nodes (real Hostname+Provider / Browser objects, every packet through "
                    "toPacket/fromPacket, per-link delays 1..300 ms, multicast loop-back, optional duplication); histories of start, "
                    "update (port, attributes, name, type), destruction, silent disconnection and late browser start at arbitrary "
                    "instants; after draining (and, after a disconnection, after the record TTL) every browser's view must equal the "
                    "services offered by the live providers of its type; non-trivial = at least one service notification; "
                    "distinct = distinct scripts",
            "samples": [{"script": cases[0][0][:14], "expected": {str(k): sorted(v) for k, v in cases[0][1].items()}}] if cases else [],
            "violations": violations}
