import itertools, re
from vlib import Script
from explore import explore_scripts

SPEC = {
    "properties_file": "Properties_C07.v",
    "facts": ["probe_wait_ms", "prober_conflict", "prober_ignore_message", "T_ANY"],
    "assumptions": ["names that are valid UTF-8 without NUL (QString::arg / toUtf8 are then plain concatenation)",
                    "timers fire at or after their deadline (Qt coarse-timer slack is outside the model)"],
}

TAIL = "._x._tcp.local."


def hexs(s):
    return s.encode().hex()


G_TTL = [120]      # TTL of the records of the event being generated (a goodbye, TTL 0, conflicts like any other record)


def rec(name, rtype=33, ttl=None, port=80):
    ttl = G_TTL[0] if ttl is None else ttl
    return "%s,%d,0,%d,n,%s,-,0,0,%d,_,." % (hexs(name), rtype, ttl, hexs("h.local."), port)


def cand(base, k):
    return base + TAIL if k == 1 else "%s-%d%s" % (base, k, TAIL)


ECHO = [""]        # question section of the responses of the event being generated (a responder may echo the question it answers)


SRC = ["n"]         # source address of the messages of the event being generated (a peer on this very machine is a peer too)


def resp(records):
    return "DELIVER %s|0|0|1|0|%s|%s" % (SRC[0], ECHO[0], ";".join(records))


def query_with(records):
    return "DELIVER n|0|0|0|0|%s,255,0|%s" % (hexs("q.local."), ";".join(records))


class Mirror:
    """tracks the candidate the real prober should currently be on (only used to aim the generator)"""
    def __init__(self):
        self.k, self.deadline, self.now, self.done = 1, 2000, 0, False


def event_letters(base, m):
    """the alphabet of one step, relative to the mirror"""
    cur = rec(cand(base, m.k))
    return {
        "conflict": resp([cur]),
        "conflict2": resp([cur, rec(cand(base, m.k + 1))]),
        "earlier": resp([rec(cand(base, max(1, m.k - 1)))]) if m.k > 1 else resp([rec("zz" + TAIL)]),
        "later": resp([rec(cand(base, m.k + 1))]),
        "othertype": resp([rec(cand(base, m.k), rtype=16)]),
        "query": query_with([cur]),
    }


def apply(m, kind, lines, base):
    if kind in ("conflict", "conflict2") and not m.done:
        lines.append(event_letters(base, m)[kind])
        m.k += 2 if kind == "conflict2" else 1
        m.deadline = m.now + 2000
    elif kind in ("earlier", "later", "othertype", "query", "conflict", "conflict2"):
        lines.append(event_letters(base, m)[kind])
    else:
        op, t = kind
        if t < m.now:
            return
        lines.append("%s %d" % (op, t))
        due = (m.deadline < t) if op == "ADVB" else (m.deadline <= t)
        if due and not m.done:
            m.done = True
        m.now = t


def gen_schedule(rng, base, n):
    m, lines = Mirror(), ["NEW 0 prober " + rec(base + TAIL, rtype=rng.choice([33, 33, 16]), ttl=120)]
    for _ in range(n):
        G_TTL[0] = rng.choice([120, 120, 120, 0, 0, 4500, 1])
        ECHO[0] = "%s,255,0" % hexs(cand(base, m.k)) if rng.random() < 0.2 else ""
        SRC[0] = rng.choice(["n", "n", "4:2130706433", "6:" + "00" * 15 + "01", "4:3232235777", "4:3221225986"])
        if rng.random() < 0.5:
            apply(m, rng.choice(["conflict", "conflict", "conflict2", "earlier", "later", "othertype", "query"]), lines, base)
        else:
            t = m.deadline + rng.choice([-2000, -1001, -1, -1, 0, 0, 1, 2000]) if rng.random() < 0.8 else m.now + rng.randrange(0, 5000)
            apply(m, (rng.choice(["ADV", "ADV", "ADVB", "LATE"]), max(t, m.now)), lines, base)
    apply(m, ("ADV", m.deadline + 5000), lines, base)
    if rng.random() < 0.15:
        # a bystander prober (for another name) on the same server comes and goes
        out = []
        for l in lines:
            out.append(l)
            if not l.startswith("NEW") and rng.random() < 0.3:
                out.append("GHOST prober " + rec("bystander" + TAIL, ttl=120))
        lines = out
    return lines


def enum_schedules(base, depth):
    """all schedules of <= depth events over the property's list, on the grid around the deadline"""
    kinds = ["conflict", "conflict2", "later", "othertype", "query",
             ("ADV", -1), ("ADVB", 0), ("ADV", 0), ("ADV", 1)]
    out = []
    for n in range(1, depth + 1):
        for combo in itertools.product(kinds, repeat=n):
            m, lines = Mirror(), ["NEW 0 prober " + rec(base + TAIL)]
            for k in combo:
                if isinstance(k, tuple):
                    apply(m, (k[0], m.deadline + k[1]), lines, base)
                else:
                    apply(m, k, lines, base)
            apply(m, ("ADV", m.deadline + 4001), lines, base)
            out.append(lines)
    return out


def signature(kind, detail, s):
    m = re.search(r"code=(\d+)", detail or "")
    return "%s:%s" % (kind, m.group(1)) if m else kind


def explore(ctx, replay=None, search_boost=False):
    rng = ctx.rng
    scripts = []
    if replay:
        txt = open(replay).read()
        m = re.search(r"=== \S+ prober[^\n]*\n(.*?)\n(?:\n---|\Z)", txt, flags=re.S)
        scripts = [Script("replay", "prober", [l for l in (m.group(1) if m else txt).splitlines() if l.strip() and not l.startswith("=")])]
    else:
        depth = 3 if ctx.tier == "quick" else 4
        for i, l in enumerate(enum_schedules("ab", depth)):
            scripts.append(Script("e%d" % i, "prober", l))
        n = 500 if ctx.tier == "quick" else 20000
        if search_boost:
            n *= 4
        bases = ["ab", "My Printer", "x-2", "café", "a", "9"]
        for i in range(n):
            scripts.append(Script("g%d" % i, "prober", gen_schedule(rng, rng.choice(bases), rng.randrange(1, 12))))
    res = explore_scripts(ctx, scripts, mon_engine="mon-prober", classify=signature)
    res["exhaustive_depth"] = None if replay else depth
    res["rule"] = ("every schedule of <= %s events from {conflict for the current candidate, two conflicts in one message, later candidate, "
                   "same name other type, query carrying the record, advance to deadline-1 / before-deadline / deadline / deadline+1} "
                   "plus random schedules (late firings, several base names incl. multi-byte and '-2' look-alikes); non-trivial = the "
                   "implementation sent or signalled something after construction; distinct = distinct scripts" % (None if replay else depth))
    return res
