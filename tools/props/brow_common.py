"""shared by C14 / C15 / C19: browsers (+ caches) on one server under virtual time"""
import re
import vlib
from vlib import Script
from explore import explore_scripts

TYPES = ["_x._tcp.local.", "_y._tcp.local."]
BROWSE = "_services._dns-sd._udp.local."
INSTS = ["I", "J", "B\u00fcro", "a.b"]
HOSTS = ["h.local.", "g.local."]


def hexs(s):
    return (s if isinstance(s, bytes) else s.encode()).hex()


def tok(s):
    return "-" if s is None else (hexs(s) if s else ".")


def rec(name, rtype, ttl=120, flush=0, target=None, port=0, attrs="_", addr="n"):
    return "%s,%d,%d,%d,%s,%s,-,0,0,%d,%s,." % (tok(name), rtype, flush, ttl, addr, tok(target), port, attrs)


def rand_records(rng):
    t = rng.choice(TYPES)
    i = rng.choice(INSTS) + "." + t
    ttl = lambda: rng.choice([0, 0, 2, 3, 120, 120, 4500])
    fl = lambda: 1 if rng.random() < 0.3 else 0
    opts = [
        lambda: rec(t, 12, ttl(), 0, target=i),
        lambda: rec(i, 33, ttl(), fl(), target=rng.choice(HOSTS), port=rng.choice([80, 631, 0, 65535])),
        lambda: rec(i, 16, ttl(), fl(), attrs=rng.choice(["_", "6b=76", "6b=-", "61=62+63=."])),
        lambda: rec(rng.choice(HOSTS), rng.choice([1, 28]), ttl(), fl(), addr="4:167772161"),
        lambda: rec(BROWSE, 12, ttl(), 0, target=t),
        lambda: rec(t, 12, ttl(), 0, target=rng.choice(INSTS) + "." + rng.choice(TYPES)),     # PTR whose target has another type
        lambda: rec(t, 12, ttl(), 0, target=None),                                              # root-name target
        lambda: rec(t, 12, ttl(), 0, target="noDot"),
        lambda: rec("x" + t, 33, ttl(), fl(), target=rng.choice(HOSTS), port=1),
        # a type that has another type as a suffix, with its PTR, and an instance of it
        lambda: rec(BROWSE, 12, ttl(), 0, target="x." + t),
        lambda: rec("x." + t, 12, ttl(), 0, target="foo.x." + t),
        lambda: rec("foo.x." + t, 33, ttl(), fl(), target=rng.choice(HOSTS), port=7),
    ]
    w = [6, 6, 5, 2, 2, 1, 1, 1, 1, 1, 1, 1]
    return [rng.choices(opts, w)[0]() for _ in range(rng.choice([1, 1, 2, 3, 3, 5]))]


def service_batch(rng, t=None, inst=None):
    t = t or rng.choice(TYPES)
    i = (inst or rng.choice(INSTS)) + "." + t
    ttl1, ttl2, ttl3 = [rng.choice([2, 3, 120, 4500]) for _ in range(3)]
    return [rec(t, 12, ttl1, 0, target=i), rec(i, 33, ttl2, rng.randrange(2), target=rng.choice(HOSTS), port=rng.choice([80, 631, 0, 65535])),
            rec(i, 16, ttl3, rng.randrange(2), attrs=rng.choice(["_", "6b=76", "61=62+63=."]))]


def gen_script(rng, nops):
    lines = []
    ncache = 0
    shared = rng.random() < 0.5
    if shared:
        lines.append("NEW c0 cache")
        ncache = 1
    nb = rng.choice([1, 1, 2, 3])
    for j in range(nb):
        ty = rng.choice(TYPES + [BROWSE]) if rng.random() < 0.9 else rng.choice(["_z._udp.local.", "", "x." + TYPES[0]])
        c = "c0" if (shared and rng.random() < 0.8) else "-"
        lines.append("NEW %d browser %s %s" % (j, hexs(ty) or ".", c))
    now = 0
    marks = []
    for _ in range(nops):
        r = rng.random()
        if r < 0.5:
            recs = service_batch(rng) if rng.random() < 0.5 else rand_records(rng)
            if rng.random() < 0.15:
                recs = recs + recs[:1]
            rng.random() < 0.2 and rng.shuffle(recs)
            resp = 1 if rng.random() < 0.93 else 0
            echo = ("%s,255,0" % recs[0].split(",")[0]) if (recs and rng.random() < 0.15) else ""      # a response may echo a question
            lines.append("DELIVER 4:3232235777|5353|0|%d|0|%s|%s" % (resp, echo, ";".join(recs)))
            for ttl in (2, 3, 120):
                for f in (500, 850, 950, 1000):
                    marks.append(now + ttl * f)
        elif r < 0.9:
            fut = sorted(set(m for m in marks if m >= now))
            if fut and rng.random() < 0.7:
                t = max(now, rng.choice(fut[:8]) + rng.choice([0, 0, 19, 20, -1, 100]))
            else:
                t = now + rng.choice([0, 1, 100, 101, 1000, 60000, 60000, 120001, 3600000])
            lines.append("%s %d" % (rng.choice(["ADV", "ADV", "ADV", "ADVB", "LATE"]), t))
            now = t
        elif r < 0.93:
            lines.append("JITTER %d" % rng.randrange(20))
        elif r < 0.96 and nb < 4:
            # a browser created later: on the shared cache it meets the records its predecessors stored (its creation
            # question must list the unexpired PTR records already held for its type); or on a cache of its own
            ty = rng.choice(TYPES + [BROWSE])
            lines.append("NEW %d browser %s %s" % (nb, hexs(ty) or ".", "c0" if (shared and rng.random() < 0.8) else "-"))
            nb += 1
        elif shared:
            lines.append("CLOOKUP c0 - 255")
    now += rng.choice([1, 5000, 130000])
    lines.append("ADV %d" % now)
    if rng.random() < 0.2:
        # bystander browsers on the same server (and, when there is one, the same cache) come and go
        out = []
        for l in lines:
            out.append(l)
            if l.startswith(("ADV", "DELIVER", "LATE")) and rng.random() < 0.25:
                out.append("GHOST browser %s %s" % (hexs(rng.choice(TYPES + [BROWSE])), "c0" if (shared and rng.random() < 0.7) else "-"))
        lines = out
    return lines


def inst_key(line):
    w = line.split()
    if len(w) >= 5 and w[1] == "SIG":
        f = w[4].split(",")
        if len(f) >= 2:
            return f[1] + "." + f[0]
    return ""


def canon_msg(tokmsg):
    f = tokmsg.split("|")
    if len(f) == 7:
        f[5] = ";".join(sorted(f[5].split(";"))) if f[5] else f[5]
        f[6] = ";".join(sorted(f[6].split(";"))) if f[6] else f[6]
    return "|".join(f)


def canon(lines):
    """QSet iteration order is hash order in Qt and sorted order in the model: within one handler invocation signals are
    grouped stably by instance, and the questions / records of a sent message are compared as sorted lists"""
    out, grp = [], []
    for l in lines:
        if l == ".":
            grp = [(" ".join(x.split()[:2] + [canon_msg(x.split()[2])]) if len(x.split()) == 3 and x.split()[1] in ("SENDALL", "SEND") else x) for x in grp]
            out += sorted(grp, key=lambda x: (inst_key(x), 0)) if False else stable_by_instance(grp)
            out.append(".")
            grp = []
        else:
            grp.append(l)
    return out + grp


def stable_by_instance(grp):
    keyed = [(inst_key(x), i, x) for i, x in enumerate(grp)]
    sends = sorted([x for k, i, x in keyed if not k and (" SENDALL " in x or " SEND " in x)])
    others = [x for k, i, x in keyed if not k and not (" SENDALL " in x or " SEND " in x)]
    sigs = [x for k, i, x in sorted([t for t in keyed if t[0]], key=lambda t: (t[0], t[1]))]
    return sends + sigs + others


def shared_replay(s):
    """>= 2 browsers attached to one supplied cache, and a delivered message that withdraws (TTL 0) and (re)adds a record of
    the same name and type: every browser replays the message on the shared cache"""
    attached = {}
    for l in s.lines:
        w = l.split()
        if len(w) == 5 and w[0] == "NEW" and w[2] == "browser" and w[4] != "-":
            attached[w[4]] = attached.get(w[4], 0) + 1
    if not any(v >= 2 for v in attached.values()):
        return False
    for l in s.lines:
        w = l.split()
        if len(w) == 2 and w[0] == "DELIVER":
            recs = w[1].split("|")[6].split(";") if w[1].count("|") == 6 else []
            keys0 = set((r.split(",")[0], r.split(",")[1]) for r in recs if len(r.split(",")) == 12 and r.split(",")[3] == "0")
            keys1 = set((r.split(",")[0], r.split(",")[1]) for r in recs if len(r.split(",")) == 12 and r.split(",")[3] != "0")
            if keys0 & keys1:
                return True
    return False


def signature(kind, detail, s):
    m = re.search(r"code=(\d+)", detail or "")
    if m and m.group(1) == "64" and shared_replay(s):
        return "%s:64:shared-cache-replay" % kind
    return "%s:%s" % (kind, m.group(1)) if m else kind


def explore(ctx, focus, replay=None, search_boost=False):
    rng = ctx.rng
    fcode = {"C14": "50", "C15": "60", "C19": "70"}[focus]
    lo = int(fcode)

    def attribute(kind, detail):
        m = re.search(r"code=(\d+)", detail)
        return not m or lo <= int(m.group(1)) <= lo + 9 or int(m.group(1)) < 10

    if replay:
        txt = open(replay).read()
        m = re.search(r"=== \S+ browser[^\n]*\n(.*?)\n(?:\n---|\Z)", txt, flags=re.S)
        scripts = [Script("replay", "browser", [l for l in (m.group(1) if m else txt).splitlines() if l.strip() and not l.startswith("=")], [fcode])]
    else:
        n = (1000 if ctx.tier == "quick" else 30000) * (4 if search_boost else 1)
        scripts = [Script("g%d" % i, "browser", gen_script(rng, rng.randrange(1, 18)), [fcode]) for i in range(n)]
    res = explore_scripts(ctx, scripts, mon_engine="mon-browser", classify=signature, attribute=attribute, project=canon,
                          env={"VERIF_JITTER_BOUND": "20"})
    res["rule"] = ("1..3 browsers (specific types, enumerate-all, an unrelated type) with private or shared caches; streams of responses "
                   "with PTR/SRV/TXT/A/AAAA records of the browsed, another and the enumeration type, TTL 0..4500, flush bit, duplicates, "
                   "shuffled batches, PTRs whose target is of another type / has no dot / is the root name; advances aimed at refresh "
                   "(50/85/95 %) and expiry instants, 100 ms / 60 s / hours, exact, before-timer and late; comparison canonicalised for "
                   "QSet order; non-trivial = at least one signal or follow-up question; distinct = distinct scripts")
    return res
