"""shared by C01 / C02 / C03"""
import os, re
import vlib
from vlib import Script
import gen_codec as G


def run_both(ctx, scripts):
    model = vlib.run_model(ctx.driver, scripts)
    impl, faults = vlib.run_impl(ctx.hx, scripts)
    return model, impl, faults


def op_results(lines):
    """outputs per op (groups split at '.')"""
    gs, cur = [], []
    for l in lines:
        if l == ".":
            gs.append(cur)
            cur = []
        else:
            cur.append(l)
    return gs, cur


def report(ctx, violations, kind, what, script_lines, impl_lines, model_lines, extra="", nofail=False, signature=None, maxn=4):
    # at most maxn reports per signature: reports of one kind (a known finding, say) must not crowd out another kind
    if sum(1 for v in violations if v.get("signature") == (signature or kind)) >= maxn:
        return
    body = "property %s — %s\n%s\n\n--- script (feed to the harness / driver) ---\n=== replay %s\n%s\n\n--- implementation ---\n%s\n\n--- model ---\n%s\n%s" % (
        ctx.pid, kind, what, {"C20": "values", "C04": "net", "C09": "net"}.get(ctx.pid, "codec"), "\n".join(script_lines), "\n".join(impl_lines), "\n".join(model_lines), extra)
    p = vlib.write_replay(ctx.pid, "%s_%d" % (kind, len(violations)), body)
    violations.append({"replay": p, "what": "%s: %s" % (kind, what), "nofail": nofail, "signature": signature or kind, "kind": kind})


def compare_ops(ctx, scripts, model, impl, faults, violations, expected=None, judge=None):
    """per-operation comparison model/impl (and against `expected[script.id][k]` when given);
       judge(op, impl_out) -> None | reason  is the property-level acceptor applied to the implementation"""
    n_ops = n_nontrivial = 0
    distinct = set()
    for s in scripts:
        gi, ti = op_results(impl.get(s.id, []))
        gm, tm = op_results(model.get(s.id, []))
        fault = next((l for l in impl.get(s.id, []) if l.startswith("FAULT") or l.startswith("ERROR")), None)
        for k, op in enumerate(s.lines):
            n_ops += 1
            io = gi[k] if k < len(gi) else None
            mo = gm[k] if k < len(gm) else None
            if io is None:
                if fault:
                    report(ctx, violations, "fault", "%s at operation %d: %s" % (fault, k, op[:200]), [op], [fault], mo or [],
                           extra="\n--- sanitizer output ---\n" + faults.get(s.id, ""), signature="fault")
                else:
                    report(ctx, violations, "harness-error", "no output for operation %d" % k, [op], impl.get(s.id, [])[-3:], mo or [], nofail=True)
                break
            if io and io[0].startswith("OK"):
                n_nontrivial += 1
                distinct.add(op)
            if mo is not None and any(l.startswith("FAULT") or l.startswith("OUTOFFUEL") for l in mo):
                report(ctx, violations, "model-fault", "the model reads outside the buffer or runs out of fuel on %s" % op[:200], [op], io, mo,
                       signature="model-fault")
                continue
            why = None
            if expected is not None:
                ex = expected[s.id][k]
                if ex is not None and io != [ex]:
                    why = "implementation output differs from the reference: expected %s" % ex[:300]
            if why is None and judge is not None:
                why = judge(op, io)
            if why:
                report(ctx, violations, "monitor", why, [op], io, mo or [], signature="monitor")
            elif mo != io:
                report(ctx, violations, "correspondence", "model and implementation differ on %s" % op[:200], [op], io, mo or [], nofail=True)
    return n_ops, n_nontrivial, len(distinct)


def replay_lines(path):
    with open(path) as f:
        txt = f.read()
    m = re.search(r"=== \S+ (?:codec|server)[^\n]*\n(.*?)\n(?:\n---|\Z)", txt, flags=re.S)
    return [l for l in (m.group(1) if m else txt).splitlines() if l.strip() and not l.startswith("#") and not l.startswith("===")]
