"""shared by C10 / C11 / C12 / C13: provider + hostname (+ prober) scripts under virtual time"""
import re
import vlib
from vlib import Script
from explore import explore_scripts
from props import host_common as hc

TYPES = ["_x._tcp.local.", "_y._udp.local.", "_x._tcp.local.", "_y._udp.local.", ""]       # also the empty type
NAMES = ["Printer", "Laser", "My.Srv", "B\u00fcro 2", "..", "N" * 40]
BROWSE = "_services._dns-sd._udp.local."


def hexs(s):
    return (s if isinstance(s, bytes) else s.encode()).hex()


def svc(name, stype, port, attrs):
    return "%s,%s,-,%d,%s" % (hexs(stype) or ".", hexs(name) or ".", port, attrs)      # "." is the empty (non-null) byte array


def srv_rec(name, target="h.local.", port=1, ttl=120, rtype=33):
    tg = hexs(target) if rtype in (33, 12) else "-"
    return "%s,%d,0,%d,n,%s,-,0,0,%d,_,." % (hexs(name), rtype, ttl, tg, port if rtype == 33 else 0)


def inst(name, stype, k):
    n = name.replace(".", "-")
    return "%s.%s" % (n if k == 1 else "%s-%d" % (n, k), stype)


class World:
    def __init__(self, rng, localraw):
        self.rng = rng
        self.local = localraw.replace(".", "-")
        self.now = 0
        self.lines = ["HOSTNAME " + hexs(localraw), "NEW 0 hostname", "NEW 1 provider 0"]
        self.last = None            # last requested (name, type, port, attrs)
        self.hk = 1
        self.sk = 1
        self.alive = True
        self.marks = [2000]         # interesting instants

    def update(self, same=False, identical=False):
        rng = self.rng
        if same and self.last:
            name, stype = self.last[0], self.last[1]
        else:
            name, stype = rng.choice(NAMES), rng.choice(TYPES)
        port = rng.choice([80, 631, 9100, 0, 65535])
        attrs = rng.choice(["_", "6b=76", "6b=-", "61=62+63=.", "+".join("%02x=%02x" % (i, i) for i in range(65, 90))])
        if identical and self.last:
            name, stype, port, attrs = self.last        # the very same description again (a refresh by the application)
        self.last = (name, stype, port, attrs)
        self.sk = 1
        self.lines.append("UPDATE 1 " + svc(name, stype, port, attrs))
        self.marks.append(self.now + 2000)

    def conflict_service(self):
        if not self.last:
            return
        k = self.sk + self.rng.choice([0, 0, 0, 1, -1])
        nm = inst(self.last[0], self.last[1], max(1, k))
        rt = self.rng.choice([33, 33, 33, 16, 12])
        echo = "%s,255,0" % hexs(nm) if self.rng.random() < 0.2 else ""       # a response may echo the question it answers
        self.lines.append("DELIVER 4:3232235777|5353|0|1|0|%s|%s" % (echo, srv_rec(nm, rtype=rt, ttl=self.rng.choice([120, 120, 120, 0, 4500]))))
        if k == self.sk and rt == 33:
            self.sk += 1
            self.marks.append(self.now + 2000)

    def conflict_service_multi(self):
        """one response with several records around the current candidate: the current and the next alternative
           (in either order), the same name under another type before / after the SRV, a repeated record"""
        if not self.last:
            return
        rng = self.rng
        shape = rng.choice([[(0, 33), (1, 33)], [(1, 33), (0, 33)], [(0, 16), (0, 33)], [(0, 33), (0, 16)], [(0, 33), (0, 33)],
                            [(0, 33), (1, 33), (2, 33)], [(0, 12), (0, 33), (1, 16)], [(-1, 33), (0, 33)]])
        base, recs = self.sk, []
        for dk, rt in shape:
            k = max(1, base + dk)
            recs.append(srv_rec(inst(self.last[0], self.last[1], k), rtype=rt))
            if k == self.sk and rt == 33:
                self.sk += 1
        self.lines.append("DELIVER 4:3232235777|5353|0|1|0||" + ";".join(recs))
        self.marks.append(self.now + 2000)

    def conflict_service_exact(self):
        if self.last:
            nm = inst(self.last[0], self.last[1], self.sk)
            self.lines.append("DELIVER 4:3232235777|5353|0|1|0||" + srv_rec(nm))
            self.sk += 1

    def conflict_host_exact(self):
        nm = hc.cand(self.local, self.hk)
        self.lines.append("DELIVER 4:3232235777|5353|0|1|0||" + hc.arec(nm, 1, "4:9"))
        self.hk += 1

    def conflict_host(self):
        k = self.hk + self.rng.choice([0, 0, 1, -1])
        nm = hc.cand(self.local, max(1, k))
        self.lines.append("DELIVER 4:3232235777|5353|0|1|0||" + hc.arec(nm, self.rng.choice([1, 28]), "4:9", self.rng.choice([120, 120, 120, 0, 4500])))
        if k == self.hk:
            self.hk += 1
            self.marks.append(self.now + 2000)

    def query(self):
        rng = self.rng
        names = [BROWSE, "other._tcp.local."]
        if self.last:
            for k in (1, self.sk, self.sk + 1):
                names.append(inst(self.last[0], self.last[1], k))
            names += [self.last[1], self.last[1].upper()]
        qs = []
        for _ in range(rng.choice([1, 1, 2, 3, 4])):
            nm = rng.choice(names)
            tokn = hexs(nm) or "."
            if rng.random() < 0.08:
                tokn = rng.choice([".", "-"])        # a question for the root name (empty), or with a null name
            qs.append("%s,%d,%d" % (tokn, rng.choice([12, 12, 33, 16, 255, 1, 28]), rng.randrange(2)))
        known = []
        if self.last and rng.random() < 0.5:
            i = inst(self.last[0], self.last[1], self.sk)
            tgt = hc.cand(self.local, self.hk)
            opts = [
                "%s,12,0,%d,n,%s,-,0,0,0,_,." % (hexs(self.last[1]), rng.choice([3600, 10]), hexs(i)),
                "%s,33,%d,3600,n,%s,-,0,0,%d,_,." % (hexs(i), rng.randrange(2), hexs(tgt), self.last[2]),
                "%s,33,0,3600,n,%s,-,0,0,%d,_,." % (hexs(i), hexs(tgt), self.last[2] + 1),
                "%s,16,0,3600,n,-,-,0,0,0,%s,." % (hexs(i), self.last[3]),
                "%s,12,0,3600,n,%s,-,0,0,0,_,." % (hexs(self.last[1]), hexs("zz." + self.last[1])),
            ]
            known = [rng.choice(opts) for _ in range(rng.choice([1, 2, 3]))]
        src = rng.choice(["4:3232235777", "4:3221225987", "6:fe8000000000000000000000000000aa"])
        self.lines.append("DELIVER %s|%d|%d|0|0|%s|%s" % (src, rng.choice([5353, 5353, 40000]), rng.randrange(65536), ";".join(qs), ";".join(known)))

    def adv(self):
        rng = self.rng
        fut = sorted(set(m for m in self.marks if m >= self.now))
        if fut and rng.random() < 0.8:
            t = max(self.now, rng.choice(fut[:3]) + rng.choice([-1, 0, 0, 0, 1, 500]))
        else:
            t = self.now + rng.choice([0, 1, 1000, 2000, 5000, 1800000, 1802000, 3600000])
        op = rng.choice(["ADV", "ADV", "ADV", "ADV", "ADVB", "LATE"])
        self.lines.append("%s %d" % (op, t))
        if t >= 2000 and self.now < 2000:
            self.marks += [1802000, 1804000]
        self.now = t

    def settle(self):
        self.now += 7000
        self.lines.append("ADV %d" % self.now)


def scenario(rng, w):
    """structured multi-step histories that random choice rarely assembles"""
    kind = rng.choice(["reconfirm", "hostchange", "aba", "abab", "reprobe-update", "late-conflicts", "late-conflicts", "reprobe-conflict-update",
                       "alt-reprobe-conflict"])
    if kind == "reprobe-conflict-update":
        w.conflict_host_exact()     # registers under the -2 candidate first, so that the re-probe half an hour later changes the hostname
    w.lines.append("ADV 2000")
    w.now = 2000
    w.update()
    if kind == "alt-reprobe-conflict":
        # the requested name is taken, the provider settles on the -2 alternative; half an hour later the hostname changes and
        # the service is probed again: whatever is defended then, the alternatives must remain name-2, name-3, ... of the
        # requested name (never alternatives of an alternative)
        w.conflict_service_exact()
        w.settle()
        w.now = 1802000
        w.lines.append("ADV %d" % w.now)
        w.hk = 1
        w.conflict_host_exact()
        w.now = 1804000 + rng.choice([0, 1, 500, 1500])
        w.lines.append("ADV %d" % w.now)
        w.sk = 1
        for _ in range(rng.choice([1, 1, 2, 3])):
            k = rng.choice([1, 2, 2, w.sk])
            w.lines.append("DELIVER 4:3232235777|5353|0|1|0||" + srv_rec(inst(w.last[0], w.last[1], k)))
            if rng.random() < 0.5:
                w.now += rng.choice([1, 300, 1000])
                w.lines.append("ADV %d" % w.now)
        w.settle()
        w.query()
        return
    if kind == "reprobe-conflict-update":
        # the hostname changes at the 30-minute re-probe: the provider re-probes the name it serves; a peer defends that name
        # and then update() repeats the requested name while the probe for the next candidate is pending
        w.settle()
        w.now = 1802000
        w.lines.append("ADV %d" % w.now)
        w.hk = 1
        w.now = 1804000
        w.lines.append("%s %d" % (rng.choice(["ADV", "LATE"]), w.now))
        if rng.random() < 0.5:
            w.now += rng.choice([1, 500, 1500])
            w.lines.append("ADV %d" % w.now)
        if rng.random() < 0.8:
            w.conflict_service_exact()
        if rng.random() < 0.5:
            w.now += rng.choice([1, 400])
            w.lines.append("ADV %d" % w.now)
        w.update(same=True)
        if rng.random() < 0.3:
            w.conflict_service_exact()
        w.settle()
        w.query()
        return
    if kind == "reconfirm":
        # the requested name is defended: confirmed as -2; a later update asks for the same name again
        w.conflict_service_exact()
        w.settle()
        w.query()
        w.update(same=True, identical=rng.random() < 0.5)
        if rng.random() < 0.8:
            w.conflict_service_exact()
        w.settle()
        w.query()
    elif kind == "late-conflicts":
        # each candidate's owner answers late in that candidate's own 2 s window: every probe needs a full wait of its own
        for _ in range(rng.choice([1, 2, 2, 3])):
            w.now += rng.choice([300, 1000, 1500, 1700, 1999])
            w.lines.append("%s %d" % (rng.choice(["ADV", "ADV", "ADVB"]), w.now))
            w.conflict_service_exact()
        w.settle()
        w.query()
    elif kind == "hostchange":
        w.settle()
        w.now = 1802000 + rng.choice([0, 1, 1000])
        w.lines.append("ADV %d" % w.now)
        w.hk = 1
        w.conflict_host_exact()
        if rng.random() < 0.3:
            w.update(same=True, identical=rng.random() < 0.5)
        w.settle()
        w.query()
    elif kind == "abab":
        # serving A; update(B); update(A) while B's probe is pending (cancels it); later update(B) again: B must be probed
        # afresh and A withdrawn before B is announced
        w.settle()
        a = w.last
        w.update()
        b = w.last
        w.now += rng.choice([0, 1, 500, 1999])
        w.lines.append("ADV %d" % w.now)
        w.last = a
        w.update(same=True, identical=True)
        if rng.random() < 0.5:
            w.settle()
        else:
            w.now += rng.choice([0, 1, 2500])
            w.lines.append("ADV %d" % w.now)
        w.last = b
        w.update(same=True, identical=True)
        w.settle()
        w.query()
        if rng.random() < 0.5:
            w.lines.append("DEL 1")
            w.alive = False
    elif kind == "aba":
        w.settle()
        w.update()
        if rng.random() < 0.5:
            w.now += rng.choice([0, 1, 1999])
            w.lines.append("ADV %d" % w.now)
        w.update()
        w.settle()
    else:
        w.settle()
        w.now = 1802000 + rng.choice([0, 1, 1999])
        w.lines.append("%s %d" % (rng.choice(["ADV", "ADVB", "LATE"]), w.now))
        w.update(same=rng.random() < 0.5)
        w.settle()


def with_ghosts(rng, lines):
    """bystanders on the same server come and go: a second Hostname, a second Provider on the same Hostname"""
    out = []
    for l in lines:
        out.append(l)
        if l.startswith(("ADV", "UPDATE", "DELIVER", "LATE")) and rng.random() < 0.2:
            out.append(rng.choice(["GHOST hostname", "GHOST provider 0"]))
    return out


def gen_script(rng, nops, focus):
    if focus != "C11" and rng.random() < 0.03:
        return late_provider_script(rng)
    w = World(rng, rng.choice(["vm", "vm", "my.host"]))
    w.ghosts = rng.random() < 0.2
    if rng.random() < 0.3:
        scenario(rng, w)
        if rng.random() < 0.4:
            nops = 0            # let the history end here, so that the end-of-history rules judge what the scenario produced
    for _ in range(nops):
        r = rng.random()
        if not w.alive:
            break
        if focus == "C11":
            if w.last is None:
                w.lines.append("ADV 2000")
                w.now = 2000
                w.update()
                w.settle()
            if r < 0.85:
                w.query()
            elif r < 0.9:
                w.update(same=rng.random() < 0.7, identical=rng.random() < 0.25)
                w.settle()
            else:
                w.adv()
        else:
            if r < 0.28:
                w.update(same=rng.random() < 0.4, identical=rng.random() < 0.15)
            elif r < 0.40:
                if rng.random() < 0.25:
                    w.conflict_service_multi()
                else:
                    w.conflict_service()
            elif r < 0.48:
                w.conflict_host()
            elif r < 0.60:
                w.query()
            elif r < 0.63:
                w.lines.append("DEL 1")
                w.alive = False
            else:
                w.adv()
    if w.alive:
        w.settle()
        w.query()
        if w.last:
            i = inst(w.last[0], w.last[1], 1)
            w.lines.append("DELIVER 4:3232235777|5353|7|0|0|%s,12,0|" % hexs(w.last[1]))
    return with_ghosts(rng, w.lines) if w.ghosts else w.lines


CYCLE = 1802000     # hostname: registered 2 s after each (re-)probe, re-probed 30 min after each registration


def created_during_reassertion(s):
    """the provider is created, and last updated, while the hostname object is re-asserting its name (unregistered for 2 s every
    30 minutes), and nothing in the script makes the hostname change: the re-registration is then silent"""
    now, created_in, last_update_in = 0, None, None
    for l in s.lines:
        w = l.split()
        if not w:
            continue
        if w[0] in ("ADV", "ADVB", "LATE"):
            now = max(now, int(w[1]))
        elif w[0] == "NEW" and w[1] == "1":
            created_in = now >= CYCLE and now % CYCLE < 2000
        elif w[0] == "UPDATE":
            last_update_in = now >= CYCLE and now % CYCLE < 2000
        elif w[0] == "DELIVER":
            f = w[1].split("|")
            if len(f) == 7 and f[3] == "1" and any(len(r.split(",")) == 12 and r.split(",")[1] in ("1", "28") for r in f[6].split(";")):
                return False
    return bool(created_in and last_update_in)


def signature(kind, detail, s):
    m = re.search(r"code=(\d+)", detail or "")
    if m and m.group(1) == "30" and created_during_reassertion(s):
        return "%s:30:created-during-reassertion" % kind
    return "%s:%s" % (kind, m.group(1)) if m else kind


def late_provider_script(rng):
    """a provider created (and updated) around the hostname's re-assertion window"""
    k = rng.choice([1, 1, 2])
    t = k * CYCLE + rng.choice([-5000, -1, 0, 1, 500, 1999, 2000, 2001, 60000])
    lines = ["HOSTNAME " + hexs("vm"), "NEW 0 hostname", "ADV %d" % t, "NEW 1 provider 0"]
    if rng.random() < 0.5:
        t += rng.choice([0, 1, 300])
        lines.append("ADV %d" % t)
    lines.append("UPDATE 1 " + svc(rng.choice(NAMES), rng.choice(TYPES), rng.choice([80, 631]), rng.choice(["_", "6b=76"])))
    t += 9000
    lines += ["ADV %d" % t, "DELIVER 4:3232235777|5353|7|0|0|%s,12,0|" % hexs(BROWSE)]
    return lines


def explore(ctx, focus, mon_engine, attribute, replay=None, search_boost=False, project=None):
    rng = ctx.rng
    iftok = hc.iface_table(ctx)
    fcode = str((int(focus[1:]) - 9) * 10)
    if replay:
        txt = open(replay).read()
        m = re.search(r"=== \S+ provider[^\n]*\n(.*?)\n(?:\n---|\Z)", txt, flags=re.S)
        scripts = [Script("replay", "provider", [l for l in (m.group(1) if m else txt).splitlines() if l.strip() and not l.startswith("=")], [iftok, fcode])]
    else:
        n = (800 if ctx.tier == "quick" else 30000) * (4 if search_boost else 1)
        scripts = [Script("g%d" % i, "provider", gen_script(rng, rng.randrange(2, 22), focus), [iftok, fcode]) for i in range(n)]
    res = explore_scripts(ctx, scripts, mon_engine=mon_engine, classify=signature, attribute=attribute, project=project)
    res["rule"] = ("histories of update (new name / type / port / attributes, back-to-back or hours apart), conflicting responses for "
                   "service and host candidates (current, previous, next; same name other type), queries of every kind with known-answer "
                   "sets (equal, one field changed, TTL changed), provider destruction, advances aimed at -1/0/+1 ms around the 2 s probe "
                   "and 30 min re-probe deadlines (exact, before-timer, late); non-trivial = the provider sent something; distinct = distinct scripts")
    return res
