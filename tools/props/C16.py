import re
from vlib import Script
from explore import explore_scripts

SPEC = {
    "properties_file": "Properties_C16.v",
    "facts": ["resolver_filter", "resolver_delay_ms", "T_A", "T_AAAA", "cache_match", "cache_multipliers", "resolver_report"],
    "assumptions": ["the supplied cache is modelled by Cache.v (C05/C06/C18); exact scheduling except where the script says LATE"],
}

HOST = "h.local."


def hexs(s):
    return s.encode().hex()


def arec(name, rtype, variant, ttl, flush=0):
    # variants 3.. are addresses of one family that a tolerant comparison identifies with one of the other family:
    # 127.0.0.1 / ::1, 0.0.0.0 / ::, 10.0.0.1 / ::ffff:10.0.0.1 / ::10.0.0.1 - they are different addresses
    if rtype == 1:
        a = "4:%d" % ([0x0A000001, 0x0A000002, 0x0A000003, 0x7F000001, 0, 0x0A000001][variant])
    elif rtype == 28:
        a = "6:" + (["fe80" + "00" * 13 + "01", "fe80" + "00" * 13 + "02", "fe80" + "00" * 13 + "03",
                     "00" * 15 + "01", "00" * 16, "00" * 10 + "ffff0a000001", "00" * 12 + "0a000001"][variant])
    else:
        a = "n"
    at = "6b=76" if rtype == 16 else "_"
    return "%s,%d,%d,%d,%s,-,-,0,0,0,%s,." % (hexs(name), rtype, flush, ttl, a, at)


def rand_rec(rng):
    name = rng.choice([HOST, HOST, HOST, "other.local.", "H.local.", "x" + HOST])
    rtype = rng.choice([1, 1, 28, 28, 16])
    ttl = rng.choice([0, 0, 1, 2, 120, 120, 4500])
    variant = rng.randrange(3) if rng.random() < 0.7 else rng.randrange(3, 6 if rtype == 1 else 7)
    return arec(name, rtype, variant, ttl, 1 if rng.random() < 0.25 else 0)


def gen(rng, nops):
    lines = []
    shared = rng.random() < 0.7
    now = 0
    if shared:
        lines.append("NEW c cache")
        for _ in range(rng.choice([0, 0, 1, 2, 4])):
            lines.append("CADD c %s %d" % (rand_rec(rng), rng.choice([0, 7, 19])))
            if rng.random() < 0.3:
                now += rng.choice([1, 600, 1000, 2000, 130000])
                lines.append("ADV %d" % now)
    if shared and rng.random() < 0.15:
        lines.append("GHOST+ resolver %s c" % hexs(HOST))      # an earlier resolver for the same host on the same server and cache
    lines.append("NEW 0 resolver %s %s" % (hexs(HOST), "c" if shared else "-"))
    for _ in range(nops):
        r = rng.random()
        if r < 0.55:
            recs = [rand_rec(rng) for _ in range(rng.choice([1, 1, 2, 3]))]
            if rng.random() < 0.3:
                recs.append(recs[0])
            resp = 1 if rng.random() < 0.85 else 0
            echo = ("%s,255,0" % recs[0].split(",")[0]) if (recs and rng.random() < 0.15) else ""      # a response may echo a question
            lines.append("DELIVER 4:3232235777|5353|0|%d|0|%s|%s" % (resp, echo, ";".join(recs)))
        elif r < 0.85:
            now += rng.choice([0, 0, 1, 500, 1000, 1000, 2000, 60000, 130000])
            lines.append("%s %d" % (rng.choice(["ADV", "ADV", "ADV", "ADVB", "LATE"]), now))
        elif r < 0.92:
            lines.append("JITTER %d" % rng.randrange(20))
        elif shared:
            lines.append("CLOOKUP c %s %d" % (rng.choice([hexs(HOST), "-"]), rng.choice([1, 28, 255])))
    now += 1
    lines.append("ADV %d" % now)
    if shared:
        lines.append("CLOOKUP c - 255")
    if rng.random() < 0.2:
        # bystander resolvers (for this host or another) on the same server and cache come and go
        out = []
        for l in lines:
            out.append(l)
            if l.startswith(("ADV", "DELIVER", "LATE", "NEW 0")) and rng.random() < 0.25:
                out.append("GHOST resolver %s %s" % (rng.choice([hexs(HOST), hexs("other.local.")]), "c" if (shared and rng.random() < 0.7) else "-"))
        lines = out
    return lines


def signature(kind, detail, s):
    m = re.search(r"code=(\d+)", detail or "")
    return "%s:%s" % (kind, m.group(1)) if m else kind


def explore(ctx, replay=None, search_boost=False):
    rng = ctx.rng
    if replay:
        txt = open(replay).read()
        m = re.search(r"=== \S+ resolver[^\n]*\n(.*?)\n(?:\n---|\Z)", txt, flags=re.S)
        scripts = [Script("replay", "resolver", [l for l in (m.group(1) if m else txt).splitlines() if l.strip() and not l.startswith("=")])]
    else:
        n = (1000 if ctx.tier == "quick" else 20000) * (4 if search_boost else 1)
        scripts = [Script("g%d" % i, "resolver", gen(rng, rng.randrange(1, 14))) for i in range(n)]
    res = explore_scripts(ctx, scripts, mon_engine="mon-resolver", classify=signature, env={"VERIF_JITTER_BOUND": "20"})
    res["rule"] = ("initial caches (none / empty / A, AAAA, TXT records of the host, of other hosts, of a host differing only in letter "
                   "case; TTL 0; flush) x streams of responses and queries (same records repeated, batched, TTL 0..4500) x clock advances "
                   "(exact, before-timer, late) incl. message-before-timer at instant 0; private or supplied cache; final cache lookup; "
                   "non-trivial = at least one resolved signal or lookup result; distinct = distinct scripts")
    return res
