"""shared by C08 / C17: hostname scripts under virtual time"""
import re, subprocess, os
import vlib
from vlib import Script
from explore import explore_scripts

LOCAL = ".local."


def hexs(s):
    return (s if isinstance(s, bytes) else s.encode()).hex()


def iface_table(ctx):
    inp = "=== if actor\nDUMPIF\n"
    p = subprocess.run([ctx.hx], input=inp, stdout=subprocess.PIPE, stderr=subprocess.PIPE, text=True, timeout=60)
    m = re.search(r"IFACES (\S+)", p.stdout)
    return m.group(1) if m else "-"


def parse_ifaces(tok):
    out = []
    if tok == "-":
        return out
    for i in tok.split(";"):
        ents = []
        if i != "_":
            for e in i.split(","):
                a, p = e.split("/")
                ents.append((a, int(p)))
        out.append(ents)
    return out


def sources(ifs, rng):
    """addresses inside each subnet, at its boundaries, just outside, and of the other family"""
    out = ["4:167772161", "6:" + "20010db8" + "00" * 11 + "01", "n"]
    for ents in ifs:
        for a, p in ents:
            if a.startswith("4:"):
                v = int(a[2:])
                width = 32
            else:
                v = int(a[2:], 16)
                width = 128
            if p < 0 or p > width:
                continue
            host = width - p
            base = (v >> host) << host if host < width else 0
            cands = [v, v ^ 1, base, base | ((1 << host) - 1) if host else v]
            if 0 < p:
                cands.append(v ^ (1 << host) if host < width else v)        # flips the last prefix bit: outside
            if host:
                cands.append(base | rng.randrange(1 << host))
            for c in cands:
                c &= (1 << width) - 1
                out.append("4:%d" % c if width == 32 else "6:%032x" % c)
    return out


def cand(local, k):
    return (local if k == 1 else "%s-%d" % (local, k)) + LOCAL


def arec(name, rtype, addr, ttl=120):
    return "%s,%d,0,%d,%s,-,-,0,0,0,_,." % (hexs(name), rtype, ttl, addr)


class Mirror:
    def __init__(self):
        self.k, self.now, self.reg = 1, 0, False
        self.deadline = 2000          # registration deadline while unregistered, else the re-probe instant


def gen_script(rng, localraw, ifs, nops, focus):
    local = localraw.replace(".", "-")
    m = Mirror()
    srcs = sources(ifs, rng)
    lines = ["HOSTNAME " + hexs(localraw), "NEW 0 hostname"]

    def adv(op, t):
        if t < m.now:
            return
        lines.append("%s %d" % (op, t))
        due = m.deadline < t if op == "ADVB" else m.deadline <= t
        while due:
            if not m.reg:
                m.reg = True
                m.deadline = m.deadline + 1800000
            else:
                m.reg, m.k = False, 1
                m.deadline = m.deadline + 2000
            due = m.deadline < t if op == "ADVB" else m.deadline <= t
        m.now = t

    def conflict(kind):
        name = {"cur": cand(local, m.k), "prev": cand(local, max(1, m.k - 1)), "next": cand(local, m.k + 1),
                "other": "zz" + LOCAL}[kind]
        # the TTL of a conflicting address record is irrelevant to the property (a goodbye, TTL 0, is "an address record of that name" too)
        recs = [arec(name, rng.choice([1, 28]), "4:1" if rng.random() < 0.5 else "6:" + "00" * 15 + "09", rng.choice([120, 120, 120, 0, 0, 4500]))]
        if rng.random() < 0.2:
            recs.append(arec(cand(local, m.k + 1), 1, "4:2"))
        if rng.random() < 0.15:
            recs[0] = "%s,16,0,120,n,-,-,0,0,0,_,." % hexs(name)       # same name, not an address record
        echo = "%s,%d,0" % (hexs(name), rng.choice([1, 28, 255])) if rng.random() < 0.2 else ""     # a response may echo the question
        lines.append("DELIVER 4:3232235777|5353|0|1|0|%s|%s" % (echo, ";".join(recs)))
        if kind == "cur" and not m.reg and ",16,0,120," not in recs[0]:
            m.k += 1
            if len(recs) > 1:
                m.k += 1
            m.deadline = m.now + 2000

    def query():
        names = [cand(local, m.k), cand(local, m.k), cand(local, max(1, m.k - 1)), "other" + LOCAL, cand(local, m.k).upper()]
        qs = []
        for _ in range(rng.choice([1, 1, 2, 3])):
            qs.append("%s,%d,%d" % (hexs(rng.choice(names)), rng.choice([1, 28, 1, 28, 255, 12, 33]), rng.randrange(2)))
        # a query may carry records (known answers, RFC 6762 7.1): the property promises an answer to every question
        # for the hostname regardless, so stale or correct address records for it in the query must change nothing
        recs = []
        if rng.random() < 0.35:
            for _ in range(rng.choice([1, 1, 2])):
                nm = rng.choice([cand(local, m.k), cand(local, m.k), "other" + LOCAL])
                # ... including exactly the record the object would answer with: one of the machine's own addresses
                own = [a for ents in ifs for a, _ in ents]
                addr = rng.choice(own) if own and rng.random() < 0.6 else rng.choice(["4:1", "4:3232235777", "6:" + "00" * 15 + "09", "6:fe80" + "00" * 13 + "01"])
                rt = (1 if addr.startswith("4:") else 28) if rng.random() < 0.8 else rng.choice([1, 28])
                recs.append(arec(nm, rt, addr, rng.choice([120, 120, 1, 0, 4500])))
        lines.append("DELIVER %s|%d|%d|0|0|%s|%s" % (rng.choice(srcs), rng.choice([5353, 5353, 49152, 1]), rng.randrange(65536), ";".join(qs), ";".join(recs)))

    ghosts = rng.random() < 0.25
    for _ in range(nops):
        r = rng.random()
        if ghosts and rng.random() < 0.25:
            lines.append("GHOST hostname")       # a second Hostname on the same server comes and goes
        if focus == "C17":
            if not m.reg and rng.random() < 0.85:       # (sometimes the questions arrive inside a probe / re-assertion window)
                adv("ADV", m.deadline)
            if r < 0.85:
                query()
            elif r < 0.9:
                conflict("cur")
            else:
                adv("ADV", m.now + rng.choice([1, 1000, 1800000]))
        else:
            if r < 0.3:
                conflict(rng.choice(["cur", "cur", "cur", "prev", "next", "other"]))
            elif r < 0.45:
                query()
            else:
                t = m.deadline + rng.choice([-2000, -1, -1, 0, 0, 0, 1, 1999]) if rng.random() < 0.85 else m.now + rng.randrange(0, 4000000)
                adv(rng.choice(["ADV", "ADV", "ADV", "ADVB", "LATE"]), max(t, m.now))
    adv("ADV", m.deadline + 1)
    query()
    return lines


def signature(kind, detail, s):
    m = re.search(r"code=(\d+)", detail or "")
    return "%s:%s" % (kind, m.group(1)) if m else kind


def explore(ctx, focus, attribute, replay=None, search_boost=False):
    rng = ctx.rng
    iftok = iface_table(ctx)
    ifs = parse_ifaces(iftok)
    scripts = []
    if replay:
        txt = open(replay).read()
        m = re.search(r"=== \S+ hostname[^\n]*\n(.*?)\n(?:\n---|\Z)", txt, flags=re.S)
        scripts = [Script("replay", "hostname", [l for l in (m.group(1) if m else txt).splitlines() if l.strip() and not l.startswith("=")], [iftok])]
    else:
        n = (600 if ctx.tier == "quick" else 20000) * (4 if search_boost else 1)
        for i in range(n):
            local = rng.choice(["vm", "vm", "my.host", "host-2", "Büro"])
            scripts.append(Script("g%d" % i, "hostname", gen_script(rng, local, ifs, rng.randrange(2, 25), focus), [iftok]))
    res = explore_scripts(ctx, scripts, mon_engine="mon-hostname", classify=signature, attribute=attribute)
    res["interface_table"] = iftok
    res["rule"] = ("scripts over 0..3 re-probe cycles (virtual hours): conflicting A/AAAA responses for the current, previous, next and "
                   "unrelated candidates, same-name non-address records, queries (A, AAAA, ANY, PTR, SRV; hostname, other candidates, "
                   "foreign and upper-cased names; a third of them carrying known-answer A/AAAA records for the hostname or another name) from sources inside every local subnet, at subnet boundaries, just outside and of "
                   "the other family, port 5353 / ephemeral, advances to deadline-1 / before / at / after the 2 s and 30 min deadlines, "
                   "late firings; host names incl. '.' and multi-byte; non-trivial = more than the initial probe; distinct = distinct scripts")
    return res
