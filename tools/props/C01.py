import gen_codec as G
from props import codec_common as cc
from vlib import Script
import vlib

SPEC = {
    "properties_file": "Properties_C01.v",
    "facts": ["pointer_flag16", "class_flush_word", "class_plain_word", "flags_response_word", "flags_truncated_word",
              "class_unicast_word", "default_ttl"],
    "assumptions": ["well-formed messages as in the property's quantifier; encoder output below 16 KiB"],
}


def same(m1, m2):
    return m1.tok() == m2.tok()


def explore(ctx, replay=None, search_boost=False):
    rng = ctx.rng
    msgs = []
    if replay:
        ops = [l for l in cc.replay_lines(replay) if l.startswith("ENC ")]
    else:
        n = 1500 if ctx.tier == "quick" else 50000
        if search_boost:
            n *= 4
        for i in range(n):
            msgs.append(G.gen_message(rng, big=(i % 97 == 96)))
        ops = ["ENC " + m.tok() for m in msgs]
    scripts = [Script("s%d" % (i // 50), "codec", ops[i:i + 50]) for i in range(0, len(ops), 50)]
    model, impl, faults = cc.run_both(ctx, scripts)
    violations = []

    # the independent strict decoder judges the implementation's bytes
    flat = {}
    dec_ops, dec_expected = [], []

    def judge(op, io):
        if not io or not io[0].startswith("BYTES "):
            return "no bytes produced"
        h = io[0][6:]
        data = bytes.fromhex(h) if h != "." else b""
        if len(data) > 16384:
            return None                      # outside the property's quantifier (>= 16 KiB)
        src = op[4:]
        try:
            back = G.ref_decode(data)
        except G.Strict as e:
            return "the packet is not a conformant DNS message: %s" % e
        if back.tok() != src:
            return "an independent decoder reads the packet back as a different message: %s" % back.tok()[:300]
        dec_ops.append("DEC " + h)
        dec_expected.append("OK " + src)
        return None

    n_ops, n_ok, n_distinct = cc.compare_ops(ctx, scripts, model, impl, faults, violations, judge=judge)
    n_distinct = len(set(ops))
    # the library's own decoder applied to the library's own bytes
    scripts2, exp2 = [], {}
    for i in range(0, len(dec_ops), 50):
        s = Script("d%d" % (i // 50), "codec", dec_ops[i:i + 50])
        scripts2.append(s)
        exp2[s.id] = dec_expected[i:i + 50]
    model2, impl2, faults2 = cc.run_both(ctx, scripts2)
    n2, _, _ = cc.compare_ops(ctx, scripts2, model2, impl2, faults2, violations, expected=exp2)
    return {"evaluations": n_ops + n2, "distinct_nontrivial": n_distinct, "traces_validated_against_impl": n_ops + n2,
            "round_trips_checked": n2,
            "rule": "well-formed messages: 0..8 (sometimes 40..400) records and 0..3 questions over a pool of names sharing suffixes "
                    "(1..6 labels, 1..63 bytes, any byte but '.'), boundary TTLs, SRV fields, addresses, TXT maps with null/empty "
                    "values and 255-byte entries, bitmaps 0..32 (255) bytes, all flag combinations; toPacket bytes compared with the "
                    "model byte for byte, judged by an independent strict RFC 1035/6762 decoder, then fed to fromPacket; "
                    "distinct = distinct messages",
            "samples": [{"op": o[:240]} for o in ops[:2]],
            "violations": violations}
