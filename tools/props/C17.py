from props import host_common as hc
import re

SPEC = {
    "properties_file": "Properties_C17.v",
    "facts": ["hostname_question", "mdns_port", "mdns_group4", "mdns_group6", "T_A", "T_AAAA"],
    "assumptions": ["QHostAddress::isInSubnet modelled as: same family and equal top prefix bits (exercised by the tie on the machine's interface table)",
                    "the interface table is read from the machine by the harness and given to the model as configuration"],
}


def attribute(kind, detail):
    m = re.search(r"code=(\d+)", detail)
    return not m or int(m.group(1)) in (7, 4, 8)


def explore(ctx, replay=None, search_boost=False):
    return hc.explore(ctx, "C17", attribute, replay, search_boost)
