from props import cache_common as cc
import re

SPEC = {
    "properties_file": "Properties_C06.v",
    "facts": ["cache_match", "cache_lookup_match", "record_eq_fields"],
    "assumptions": ["slots connected to the cache's signals do not call addRecord re-entrantly",
                    "exact timer scheduling for the monitor; late firings are compared model/implementation only"],
}


def project(lines):
    return cc.sig_lines(lines, ("recordExpired", "LOOKUP"), True)


def attribute(kind, detail):
    m = re.search(r"code=(\d+)", detail)
    return not m or int(m.group(1)) in (1, 2, 3, 8, 9, 10)


def explore(ctx, replay=None, search_boost=False):
    return cc.explore(ctx, project, attribute, replay, search_boost)
