import gen_codec as G
from props import codec_common as cc
from vlib import Script

SPEC = {
    "properties_file": "Properties_C03.v",
    "facts": ["label_kind_mask", "label_kind_pointer", "pointer_clear_mask", "pointer_shift", "aaaa_len"],
    "assumptions": ["memory safety is proved of the model's instrumented reads (every raw read is Fault when index >= length) and "
                    "sanitizer-checked on the sampled runs of the real library; Qt's own containers and compiler-level UB are outside the model",
                    "packets of at most 65535 bytes"],
    "trusted_extra": ["ASan/UBSan instrumentation of the library and harness on exact-size heap buffers; 20 s watchdog per script"],
}


def explore(ctx, replay=None, search_boost=False):
    rng = ctx.rng
    ops = []
    if replay:
        ops = cc.replay_lines(replay)
    else:
        quick = ctx.tier == "quick"
        # (i) exhaustive short strings over the structural alphabet, every start offset, three entry points
        maxlen = 4 if quick else 6
        for s in G.short_strings(maxlen):
            h = s.hex() if s else "."
            ops.append("DEC " + h)
            for off in range(len(s) + 2):
                ops.append("PNAME %s %d" % (h, off))
                if len(s) <= (3 if quick else 4):
                    ops.append("PREC %s %d" % (h, off))
        n_exh = len(ops)
        # (ii) structure-aware mutants of valid packets
        nm = 300 if quick else 8000
        if search_boost:
            nm *= 4
        for i in range(nm):
            m = G.gen_message(rng)
            _, data = G.gen_ref_case(rng)
            for d in G.mutants(rng, data, 8):
                ops.append("DEC " + (d.hex() if d else "."))
                if rng.random() < 0.3 and len(d) > 12:
                    off = rng.randrange(len(d) + 2)
                    ops.append("PREC %s %d" % (d.hex(), off))
                    ops.append("PNAME %s %d" % (d.hex(), rng.randrange(len(d) + 2)))
        # (iii) random bytes, including the maximum size, and pointer-dense packets
        for i in range(20 if quick else 300):
            n = rng.choice([12, 13, 64, 512, 4096, 65535])
            d = bytes(rng.choice([0, 1, 0xc0, 0xc0, 12, rng.randrange(256)]) for _ in range(n))
            ops.append("DEC " + d.hex())
            ops.append("PNAME %s %d" % (d.hex(), rng.randrange(n)))
    scripts = [Script("s%d" % i, "codec", ops[i:i + 60]) for i in range(0, len(ops), 60)]
    model, impl, faults = cc.run_both(ctx, scripts)
    violations = []
    n_ops, n_ok, n_distinct = cc.compare_ops(ctx, scripts, model, impl, faults, violations)
    return {"evaluations": n_ops, "distinct_nontrivial": n_distinct, "traces_validated_against_impl": n_ops,
            "exhaustive": False, "exhaustive_short_strings_up_to": None if replay else maxlen,
            "rule": "decoder entry points (fromPacket / parseRecord / parseName at every start offset) on: all strings up to the stated "
                    "length over {00,01,02,3f,40,80,bf,c0,c1,ff}; mutants (bit flips, truncation, pointer retargeting, count/length "
                    "inflation, splicing) of valid reference-encoded packets; random and pointer-dense buffers up to 65535 bytes. "
                    "non-trivial = the implementation returned a value (OK); distinct = distinct operations",
            "samples": [{"op": o[:160]} for o in ops[:2] + ops[-2:]],
            "violations": violations}
