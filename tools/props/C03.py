import gen_codec as G
from props import codec_common as cc
import vlib
from vlib import Script

SPEC = {
    "properties_file": "Properties_C03.v",
    "facts": ["label_kind_mask", "label_kind_pointer", "pointer_clear_mask", "pointer_shift", "aaaa_len"],
    "assumptions": ["memory safety is proved of the model's instrumented reads (every raw read is Fault when index >= length) and "
                    "sanitizer-checked on the sampled runs of the real library; Qt's own containers and compiler-level UB are outside the model",
                    "packets of at most 65535 bytes"],
    "trusted_extra": ["ASan/UBSan instrumentation of the library and harness on exact-size heap buffers; 20 s watchdog per script"],
}


def top_of_range(rng, reps):
    ops = []

    def rec_header(buf, h, rtype, rdlen):
        buf[h] = 0                                   # root owner name
        buf[h + 1:h + 3] = rtype.to_bytes(2, "big")
        buf[h + 3:h + 5] = (1).to_bytes(2, "big")
        buf[h + 5:h + 9] = (120).to_bytes(4, "big")
        buf[h + 9:h + 11] = rdlen.to_bytes(2, "big")

    for _ in range(reps):
        for kind in ("label", "aaaa", "nsec", "txt"):
            n = {"label": rng.choice([63, 50, 20]), "aaaa": 16, "nsec": rng.choice([255, 200, 64]), "txt": rng.choice([255, 128, 40])}[kind]
            s = 65536 - n + rng.choice([0, 0, 1, n // 2])          # where the item's bytes start: s + n >= 65536
            lead = {"label": 1, "aaaa": 11, "nsec": 14, "txt": 12}[kind]
            L = min(65535, s + rng.choice([0, 1, n // 3]))           # the packet ends inside the item
            fill = rng.choice([0x00, 0x41, 0xaa])
            buf = bytearray([fill]) * L
            h = s - lead
            if kind == "label":
                buf[h] = n
            elif kind == "aaaa":
                rec_header(buf, h, 28, 16)
            elif kind == "nsec":
                rec_header(buf, h, 47, n + 3)
                buf[h + 11] = 0                        # next domain name: root
                buf[h + 12] = 0                        # window block 0
                buf[h + 13] = n                        # bitmap length
            else:
                rec_header(buf, h, 16, n + 1)
                buf[h + 11] = n                        # one character string
            hx = bytes(buf).hex()
            if kind == "label":
                ops.append("PNAME %s %d" % (hx, h))
            else:
                ops.append("PREC %s %d" % (hx, h))
                # the same record reached through fromPacket: one record of an unsupported type whose rdata fills the gap
                gap = h - 12 - 11
                pkt = bytearray(buf)
                pkt[0:12] = bytes([0, 0, 0x84, 0, 0, 0, 0, 2, 0, 0, 0, 0])
                rec_header(pkt, 12, 99, gap)
                ops.append("DEC " + bytes(pkt).hex())
    # fixed-width integer reads that begin within 4 bytes of offset 65536 (offset + sizeof(T) no longer fits 16 bits):
    #  - decoder entry points called with a start offset of 65532..65535 on short and on full-size buffers,
    #  - a short datagram whose first record has an unsupported type and an RDLENGTH that moves the offset to
    #    65535 - k (k = 0..3), with a second record announced,
    #  - full-size datagrams whose last 1/2/4-byte field (label length, type, class, TTL, RDLENGTH) straddles the end
    for _ in range(reps):
        short = bytes(rng.choice([0x00, 0x40, 0xc0, 0x01]) for _ in range(rng.choice([1, 2, 12, 23, 40])))
        for off in (65532, 65533, 65534, 65535):
            ops.append("PNAME %s %d" % (short.hex(), off))
            ops.append("PREC %s %d" % (short.hex(), off))
        for k in (0, 1, 2, 3):
            pkt = bytearray(23 + rng.choice([0, 0, 5]))
            pkt[0:12] = bytes([0, 0, 0x84, 0, 0, 0, 0, 2, 0, 0, 0, 0])
            rec_header(pkt, 12, rng.choice([99, 2, 6, 65535]), 65535 - k - 23)
            for i in range(23, len(pkt)):
                pkt[i] = rng.choice([0x00, 0x40])
            ops.append("DEC " + bytes(pkt).hex())
        for field_off, width in ((0, 1), (1, 2), (3, 2), (5, 4), (9, 2)):
            for cut in range(1, width + 1):
                # the field starts `cut - 1` bytes... the packet ends `width - cut + 0` bytes short of the field's end
                L = rng.choice([65535, 65535, 65534, 65533])
                start = L - (cut - 1) if width > 1 else L        # first byte of the field; the field needs start + width > L
                if start + width <= L or start >= 65536:
                    continue
                h = start - field_off                               # where the record header (root owner name) begins
                buf = bytearray([rng.choice([0x00, 0x41])]) * L
                hdr = bytearray(11)
                rec_header(hdr, 0, rng.choice([1, 28, 33, 99]), 4)
                buf[h:min(L, h + 11)] = hdr[:max(0, min(11, L - h))]
                ops.append("PREC %s %d" % (bytes(buf).hex(), h))
                gap = h - 12 - 11
                pkt = bytearray(buf)
                pkt[0:12] = bytes([0, 0, 0x84, 0, 0, 0, 0, 2, 0, 0, 0, 0])
                rec_header(pkt, 12, 99, gap)
                ops.append("DEC " + bytes(pkt).hex())
    return ops


def server_path(ctx, violations, rng, n, given=None):
    """(v) what the real Server hands to the application for a sequence of datagrams on the loopback interface equals what
    the decoder returns for exactly the bytes of each datagram (long datagrams followed by shorter truncated or
    count-inflated ones): ties server.cpp's receive path to fromPacket.  One run at a time per machine (the library
    hard-wires port 5353); datagrams carry a per-run transaction id so that foreign traffic is ignored."""
    import fcntl, os, time
    lockf = open(os.path.join(vlib.BUILD, "server5353.lock"), "w")
    t0 = time.time()
    while True:
        try:
            fcntl.flock(lockf, fcntl.LOCK_EX | fcntl.LOCK_NB)
            break
        except OSError:
            if time.time() - t0 > 180:
                return {"server_path": "skipped: port 5353 busy in another check"}
            time.sleep(0.5)
    try:
        nonce = rng.randrange(1, 60000)
        dgrams = []
        if given:
            dgrams = [bytes.fromhex(l.split()[1]) for l in given]
            nonce = int.from_bytes(dgrams[0][:2], "big") if dgrams and len(dgrams[0]) >= 2 else nonce
        for i in range(0 if given else n):
            m, data = G.gen_ref_case(rng)
            if len(data) < 14 or len(data) > 8000:
                continue
            a = bytearray(data)
            dgrams.append(bytes(a))
            k = rng.random()
            b = bytearray(a)
            if k < 0.5:
                b = b[:max(12, len(b) - rng.choice([1, 2, 3, len(b) // 3 + 1]))]        # cut inside the tail
            elif k < 0.75:
                b[6:8] = ((int.from_bytes(b[6:8], "big") + rng.choice([1, 2, 7])) & 0xffff).to_bytes(2, "big")  # more answers announced
                b = b[:max(12, len(b) - rng.choice([0, 0, 5]))]
            else:
                b = b[:12 + rng.randrange(0, max(1, len(b) - 12))]
            dgrams.append(bytes(b))
        for i, d in enumerate(dgrams):
            dgrams[i] = ((nonce + i) & 0xffff).to_bytes(2, "big") + d[2:]       # (a replayed sequence already carries consecutive ids)
        lines = ["DGRAM " + d.hex() for d in dgrams]
        impl, faults = vlib.run_impl(ctx.hx, [Script("srv", "server", lines)])
        out = impl.get("srv", [])
        groups, cur = [], []
        for l in out:
            if l == ".":
                groups.append(cur)
                cur = []
            else:
                cur.append(l)
        fault = next((l for l in out if l.startswith("FAULT") or l.startswith("ERROR")), None)
        if fault:
            cc.report(ctx, violations, "fault", "server engine: " + fault, lines[:40], out[-40:], [],
                      extra="\n--- sanitizer output ---\n" + faults.get("srv", ""), signature="fault")
            return {"server_path": "fault"}
        if not groups or not groups[0] or not groups[0][0].startswith("BOUND 1"):
            return {"server_path": "skipped: the server could not bind 0.0.0.0:5353 on this machine"}
        port = groups[0][0].split()[2]
        judged = lost = 0
        for i, g in enumerate(groups[1:]):
            want = next((l for l in g if l.startswith("WANT ")), None)
            reads = next((int(l.split()[1]) for l in g if l.startswith("READS ")), 0)
            if want is None or reads <= 0:
                lost += 1
                continue
            mine = []
            for l in g:
                if l.startswith("RECV "):
                    f = l.split(" ", 3)
                    tok = f[3]
                    if tok.split("|")[2] == str((nonce + i) & 0xffff):
                        mine.append((f[1], f[2], tok))
            judged += 1
            why = None
            if want == "WANT FAIL":
                if mine:
                    why = "the server delivered a message for a datagram the decoder rejects: %s" % mine[0][2][:200]
            else:
                wtok = want[8:]
                if len(mine) > 1 or (mine and (mine[0][2] != wtok or mine[0][0] != "4:2130706433" or mine[0][1] != port)):
                    why = "the server delivered %r for a datagram that decodes to %r" % (mine[0][2][:200], wtok[:200])
            if why:
                prev = lines[max(0, i - 1):i + 1]
                if len(violations) < 4:
                    body = ("property %s — monitor\nserver receive path: %s\n\n--- script (feed to the harness) ---\n=== replay server\n%s\n\n"
                            "--- implementation (last datagram) ---\n%s\n" % (ctx.pid, why, "\n".join(prev), "\n".join(g)))
                    pth = vlib.write_replay(ctx.pid, "monitor_%d" % len(violations), body)
                    violations.append({"replay": pth, "what": "monitor: server receive path: " + why, "nofail": False,
                                       "signature": "monitor", "kind": "monitor"})
        return {"server_path": {"datagrams": len(dgrams), "judged": judged, "not_received": lost}}
    finally:
        fcntl.flock(lockf, fcntl.LOCK_UN)
        lockf.close()


def explore(ctx, replay=None, search_boost=False):
    rng = ctx.rng
    ops = []
    if replay:
        ops = cc.replay_lines(replay)
        dg = [l for l in ops if l.startswith("DGRAM ")]
        if dg:
            violations = []
            srv = server_path(ctx, violations, rng, 0, given=dg)
            return {**srv, "evaluations": len(dg), "distinct_nontrivial": len(dg), "traces_validated_against_impl": len(dg), "violations": violations}
    else:
        quick = ctx.tier == "quick"
        # (i) exhaustive short strings over the structural alphabet, every start offset, three entry points
        maxlen = 4 if quick else 6
        for s in G.short_strings(maxlen):
            h = s.hex() if s else "."
            ops.append("DEC " + h)
            for off in range(len(s) + 2):
                ops.append("PNAME %s %d" % (h, off))
                if len(s) <= (3 if quick else 4):
                    ops.append("PREC %s %d" % (h, off))
        n_exh = len(ops)
        # (ii) structure-aware mutants of valid packets
        nm = 300 if quick else 8000
        if search_boost:
            nm *= 4
        for i in range(nm):
            m = G.gen_message(rng)
            _, data = G.gen_ref_case(rng)
            for d in G.mutants(rng, data, 8):
                ops.append("DEC " + (d.hex() if d else "."))
                if rng.random() < 0.3 and len(d) > 12:
                    off = rng.randrange(len(d) + 2)
                    ops.append("PREC %s %d" % (d.hex(), off))
                    ops.append("PNAME %s %d" % (d.hex(), rng.randrange(len(d) + 2)))
        # (iii) random bytes, including the maximum size, and pointer-dense packets
        for i in range(20 if quick else 300):
            n = rng.choice([12, 13, 64, 512, 4096, 65535])
            d = bytes(rng.choice([0, 1, 0xc0, 0xc0, 12, rng.randrange(256)]) for _ in range(n))
            ops.append("DEC " + d.hex())
            ops.append("PNAME %s %d" % (d.hex(), rng.randrange(n)))
        # (iv) the top of the 16-bit offset range: a length-prefixed item (name label, AAAA address, NSEC bitmap, TXT string)
        #      that starts so close to 65536 that offset + length wraps in 16 bits, in a packet that ends before the item does;
        #      and fixed-width integer reads beginning within 4 bytes of 65536 (start offsets 65532..65535, RDLENGTH skips
        #      landing there, fields straddling the end of full-size datagrams)
        ops += top_of_range(rng, 2 if quick else 12)
    scripts = [Script("s%d" % i, "codec", ops[i:i + 60]) for i in range(0, len(ops), 60)]
    model, impl, faults = cc.run_both(ctx, scripts)
    violations = []
    n_ops, n_ok, n_distinct = cc.compare_ops(ctx, scripts, model, impl, faults, violations)
    srv = {} if replay else server_path(ctx, violations, rng, 40 if ctx.tier == "quick" else 600)
    return {**srv, "evaluations": n_ops, "distinct_nontrivial": n_distinct, "traces_validated_against_impl": n_ops,
            "exhaustive": False, "exhaustive_short_strings_up_to": None if replay else maxlen,
            "rule": "decoder entry points (fromPacket / parseRecord / parseName at every start offset) on: all strings up to the stated "
                    "length over {00,01,02,3f,40,80,bf,c0,c1,ff}; mutants (bit flips, truncation, pointer retargeting, count/length "
                    "inflation, splicing) of valid reference-encoded packets; random and pointer-dense buffers up to 65535 bytes. "
                    "non-trivial = the implementation returned a value (OK); distinct = distinct operations",
            "samples": [{"op": o[:160]} for o in ops[:2] + ops[-2:]],
            "violations": violations}
