import gen_codec as G
from props import codec_common as cc
from vlib import Script

SPEC = {
    "properties_file": "Properties_C02.v",
    "facts": ["label_kind_mask", "label_kind_pointer", "pointer_clear_mask", "pointer_shift", "class_flush_mask",
              "flags_response_mask", "flags_truncated_mask", "class_unicast_mask", "T_A", "T_AAAA", "T_NSEC", "T_PTR", "T_SRV", "T_TXT"],
    "assumptions": ["packets of at most 65535 bytes; TXT keys non-empty and pairwise distinct (RFC 6763)"],
}


def explore(ctx, replay=None, search_boost=False):
    rng = ctx.rng
    ops, expected = [], []
    if replay:
        ops = cc.replay_lines(replay)
        expected = [None] * len(ops)
    else:
        n = 2000 if ctx.tier == "quick" else 60000
        if search_boost:
            n *= 4
        for i in range(n):
            m, data = G.gen_ref_case(rng)
            if len(data) > 65535:
                continue
            ops.append("DEC " + data.hex())
            expected.append("OK " + m.tok())
    scripts, exp = [], {}
    for i in range(0, len(ops), 50):
        s = Script("s%d" % (i // 50), "codec", ops[i:i + 50])
        scripts.append(s)
        exp[s.id] = expected[i:i + 50]
    model, impl, faults = cc.run_both(ctx, scripts)
    violations = []
    n_ops, n_ok, n_distinct = cc.compare_ops(ctx, scripts, model, impl, faults, violations, expected=exp)
    return {"evaluations": n_ops, "distinct_nontrivial": n_distinct, "traces_validated_against_impl": n_ops,
            "rule": "messages as in C01 plus records of unsupported types with 0..300 bytes of opaque rdata at any position and TXT "
                    "rdata with zero-length strings, encoded by an independent reference encoder that chooses per label boundary "
                    "between no compression and a pointer to any earlier offset where the remaining suffix is encoded (also inside "
                    "rdata), record counts split arbitrarily over answer/authority/additional; the implementation's fromPacket must "
                    "return exactly the source message; non-trivial = decoded OK; distinct = distinct packets",
            "samples": [{"op": o[:200], "expected": e[:200] if e else None} for o, e in list(zip(ops, expected))[:2]],
            "violations": violations}
