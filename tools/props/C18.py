from props import cache_common as cc
import re

SPEC = {
    "properties_file": "Properties_C18.v",
    "facts": ["cache_multipliers", "cache_jitter_bound", "cache_expiry_ms_per_s", "cache_rearm", "cache_trigger_passed"],
    "assumptions": ["exact timer scheduling; jitter 0..19 ms chosen by the script through the interposed RNG primitive",
                    "TTL between 1 s and 2 000 000 s"],
}


def project(lines):
    return cc.sig_lines(lines, ("shouldQuery",), False)


def attribute(kind, detail):
    m = re.search(r"code=(\d+)", detail)
    return not m or int(m.group(1)) in (1, 4, 5, 6, 7, 9, 10)


def explore(ctx, replay=None, search_boost=False):
    return cc.explore(ctx, project, attribute, replay, search_boost)
