from props import brow_common as bc

SPEC = {
    "properties_file": "Properties_C14.v",
    "facts": ["browse_period_ms", "service_batch_ms", "browse_type", "service_eq_fields", "cache_match", "cache_lookup_match",
              "browser_any", "browser_ptr_browse", "browser_ptr_type", "browser_srvtxt", "browser_not_of_interest"],
    "assumptions": ["browsers sharing a cache are attached to the same server; slots never add records re-entrantly",
                    "QSet iteration order is canonicalised in the comparison (sorted in the model, hash order in Qt)"],
}


def explore(ctx, replay=None, search_boost=False):
    return bc.explore(ctx, "C14", replay, search_boost)
