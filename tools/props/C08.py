from props import host_common as hc
import re

SPEC = {
    "properties_file": "Properties_C08.v",
    "facts": ["registration_wait_ms", "rebroadcast_ms", "hostname_conflict", "hostname_question", "hostname_announce"],
    "assumptions": ["host names that are valid UTF-8 (QHostInfo::localHostName is interposed per script)",
                    "timers fire at or after their deadline"],
}


def attribute(kind, detail):
    m = re.search(r"code=(\d+)", detail)
    return not m or int(m.group(1)) != 7


def explore(ctx, replay=None, search_boost=False):
    return hc.explore(ctx, "C08", attribute, replay, search_boost)
