from props import cache_common as cc
import re

SPEC = {
    "properties_file": "Properties_C05.v",
    "facts": ["cache_expiry_ms_per_s", "cache_lookup_match", "cache_match", "cache_rearm", "cache_trigger_passed"],
    "assumptions": ["exact timer scheduling (Qt's coarse-timer slack and OS latency are outside the model)",
                    "TTL <= 2 000 000 s (one week is 604 800 s) so that the 32-bit arithmetic of cache.cpp does not wrap"],
}


def project(lines):
    return cc.sig_lines(lines, ("recordExpired", "LOOKUP"), False)


def attribute(kind, detail):
    m = re.search(r"code=(\d+)", detail)
    return not m or int(m.group(1)) in (1, 2, 8, 9, 10)


def explore(ctx, replay=None, search_boost=False):
    return cc.explore(ctx, project, attribute, replay, search_boost)
