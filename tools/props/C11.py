from props import prov_common as pc
import re

SPEC = {
    "properties_file": "Properties_C11.v",
    "facts": ["provider_q_browse", "provider_q_ptr", "provider_q_srv", "provider_q_txt", "provider_known_ptr", "provider_known_srv",
              "provider_known_txt", "provider_ignore_message", "provider_has_target", "provider_must_confirm",
              "provider_probe_pending", "provider_retarget", "prober_ignore_message", "probe_wait_ms", "registration_wait_ms", "rebroadcast_ms", "browse_type", "mdns_port"],
    "assumptions": ["service and host names that are valid UTF-8; one provider, its hostname object and its internal prober on one server",
                    "timers fire at or after their deadline; scripted peers answer by explicit conflicting responses"],
}
LO, HI = 20, 20 + 9


def attribute(kind, detail):
    m = re.search(r"code=(\d+)", detail)
    return not m or LO <= int(m.group(1)) <= HI or int(m.group(1)) < 10


def explore(ctx, replay=None, search_boost=False):
    return pc.explore(ctx, "C11", "mon-provider", attribute, replay, search_boost)
