import sys, json, os
# usage: agent_prompt.py <Cxx> [extra sentence appended to the task]  - prints the prompt for a seeding sub-agent;
# the agent receives only the property text (pasted here), never a path into /verif
pid=sys.argv[1]
extra=sys.argv[2] if len(sys.argv) > 2 else ""
d=[json.loads(l) for l in open(os.path.join(os.path.dirname(os.path.abspath(__file__)), '..', 'properties.jsonl')) if l.strip()]
p=[x for x in d if x['id']==pid][0]
prop=json.dumps({k:p[k] for k in ('id','title','statement','quantifier','why_tests_cant','anchors') if k in p}, indent=1)
print(f"""You are testing a verification effort by acting as an adversarial-but-realistic developer of the C++/Qt library nitroshare/qmdnsengine (multicast DNS, RFC 6762).

Your own private git worktree of the library is at /tmp/wt_{pid} (a checkout of the current source). Work ONLY inside /tmp/wt_{pid}. Never read or write /repo or /verif (they are off limits), and do not look for any verification tooling.

Here is a semantic property the library is supposed to satisfy:

{prop}

TASK: produce ONE source change to the library (files under /tmp/wt_{pid}/src) that BREAKS this property while
  (a) the library still compiles, and
  (b) the repository's existing test suite still passes completely, and
  (c) the breakage needs something specific to manifest - a particular interleaving or timing, a multi-step sequence of operations, an unusual-but-legal input, a boundary value, or two cooperating edits that each look fine alone. Do NOT produce a change that ordinary use would expose at once (e.g. not "always return false"). It should look like a plausible refactoring, optimisation or bug-fix gone slightly wrong, ideally 1-15 changed lines. {extra}

How to build and test (Qt 5.15, cmake, ninja are installed; no network):
  cmake -S /tmp/wt_{pid} -B /tmp/wt_{pid}/_b -G Ninja -DBUILD_TESTS=ON >/dev/null && cmake --build /tmp/wt_{pid}/_b -j8 && ctest --test-dir /tmp/wt_{pid}/_b -j8 --timeout 900
All 7 test executables (24 test functions) must pass with your change applied.

Also write a DEMONSTRATION: a small standalone C++ program (or QtTest) under /tmp/wt_{pid}/SEED/ that links against the library built from the worktree, exercises the specific scenario, and exits 0 when the property holds / non-zero (printing what went wrong) when it is violated. It must FAIL with your change and PASS on the unmodified source (verify both: use `git -C /tmp/wt_{pid} stash` / `stash pop` or apply/revert the patch, rebuilding each time). Hints for demos: you can subclass QMdnsEngine::AbstractServer to capture sendMessage/sendMessageToAll and to inject messages by emitting messageReceived; timers are real QTimers so run a QCoreApplication event loop with QTimer::singleShot / QTest::qWait for waits (keep total runtime under ~30 s where possible); the tests directory has a similar TestServer in tests/common you may copy. A build line that works: g++ -std=c++17 -fPIC demo.cpp $(pkg-config --cflags Qt5Core Qt5Network Qt5Test) -I/tmp/wt_{pid}/src/include -I/tmp/wt_{pid}/_b/src /tmp/wt_{pid}/_b/src/libqmdnsengine.so -Wl,-rpath,/tmp/wt_{pid}/_b/src $(pkg-config --libs Qt5Core Qt5Network Qt5Test) -o demo

DELIVERABLES (all under /tmp/wt_{pid}/SEED/):
  patch.diff   - `git -C /tmp/wt_{pid} diff -- src` of your change (must apply with `git apply` to the unmodified source)
  demo.cpp (and build.sh: the exact commands to build and run it against a built worktree)
  meta.json    - {{"property": "{pid}", "summary": "...what the change does...", "needs": "...what specific input/timing/sequence is needed for it to manifest...", "ran": "...commands you ran and their results (tests pass with change; demo fails with change, passes without)..."}}
Leave the worktree with the change REVERTED in the source files (only SEED/ and the _b build dir may remain). Finish by replying with a 5-10 line summary: what the change is, what it needs to manifest, and the confirmations you performed. If after a serious attempt you cannot find such a change, say so and explain why.""")
